"""C04 -- text assigned is the text read back, with only the documented translations.  DESIGN.md 5/C04.

A text is a structured string seg0 sep1 seg1 ... sepk segk: the separators are literal "\\n" / "\\v"
characters (their number and kinds enumerated up to 3, i.e. every arrangement of up to three breaks),
the segments are symbolic strings that contain no separator and may be empty.  The real
`TextFrame.text`, `_Paragraph.text`, `_Run.text`, `CT_TextParagraph.append_text/add_r/add_br/text`,
`CT_RegularTextRun.text/_escape_ctrl_chars`, `CT_TextLineBreak.text` run on a ghost text body whose
child lists are ordinary Python lists (their length is fixed by the enumerated separator pattern).
`str.split`, `re.split` and `re.sub` with the one-character class enter as assumed contracts."""
from __future__ import annotations

import itertools
import re

import z3

from pyvc.engine import Atom, GhostFn, MODELS_BY_NAME, PATTERN_MODELS, SObj, SStr, Unsupported, _as_sstr, _mkstr, model
from pyvc.verify import contract

META = {
    "residual": [
        "survival of whitespace and of the text through libxml2 serialise/parse (save/re-open) is only checked natively "
        "(C04.native_strings, all strings <= 3 (thorough: 5) over 10 symbols incl. \\r plus splitter/normaliser look-alikes, at the four levels; never counted as proved)",
        "the number of breaks per assigned text is enumerated up to 3 (all kinds and positions); segments are symbolic",
    ],
    "trusted_base": ["str.split(sep) / re.split('\\n|\\v') return the maximal separator-free segments",
                     "re.sub with the class [\\x00-\\x08\\x0B-\\x1F] and a callback is the per-character map (lemma C04.escape_char_lemma is ground)",
                     "lxml .text stores any string of XML Chars verbatim"],
}

SEPS = ["\n", "\v"]


def _seg(c, name):
    zs = c.input(name, z3.String(name))
    c.requires(z3.Not(z3.Contains(zs, z3.StringVal("\n"))))
    c.requires(z3.Not(z3.Contains(zs, z3.StringVal("\v"))))
    a = Atom(name, excludes=frozenset("\n\v"), zs=zs)
    a.seg = name
    return a


def _text(c, pattern):
    """pattern: tuple of separators; returns (structured string, [segment atoms])."""
    segs = [_seg(c, "seg%d" % i) for i in range(len(pattern) + 1)]
    parts = [segs[0]]
    for sep, s in zip(pattern, segs[1:]):
        parts += [sep, s]
    return SStr(parts), segs


# -- assumed contracts of the splitters on structured strings -------------------------------------------------


def _split_at(s, seps):
    out = [[]]
    for p in _as_sstr(s).parts:
        if isinstance(p, str):
            cur = ""
            for ch in p:
                if ch in seps:
                    if cur:
                        out[-1].append(cur)
                    out.append([])
                    cur = ""
                else:
                    cur += ch
            if cur:
                out[-1].append(cur)
        else:
            if isinstance(p, Atom) and not all(sp in p.excludes for sp in seps):
                raise Unsupported("segment %r may contain a separator" % (p,))
            out[-1].append(p)
    return [_mkstr(x) for x in out]


def _re_split(it, func, a, k):
    pat, s = a[0], a[1]
    if isinstance(s, str):
        return it.native(re.split, a, k)
    if pat != "\n|\v":
        raise Unsupported("re.split(%r) on a symbolic string has no assumed contract" % pat)
    it.path.assumed.add("re.split('\\n|\\v', s) returns the maximal segments free of both characters (count = breaks + 1)")
    return _split_at(s, "\n\v")


@model(re.split)
def m_re_split(it, a, k):
    return _re_split(it, None, a, k)


class _Esc(Atom):
    """_escape_ctrl_chars(segment): every C0 control other than TAB/LF becomes _xHHHH_, everything else is kept."""


@model(re.sub)
def m_re_sub(it, a, k):
    pat, repl, s = a[0], a[1], a[2]
    if isinstance(s, str) and not callable(repl) or isinstance(s, str) and type(repl).__name__ != "SFunc":
        return it.native(re.sub, a, k)
    if pat != r"([\x00-\x08\x0B-\x1F])":
        raise Unsupported("re.sub(%r) on a symbolic string has no assumed contract" % pat)
    it.path.assumed.add("re.sub(r'([\\x00-\\x08\\x0B-\\x1F])', f, s) applies f to each character of the class and keeps every other character (per-character map)")
    out = []
    for p in _as_sstr(s).parts:
        if isinstance(p, str):
            buf = ""
            for ch in p:
                if re.match(pat, ch):
                    class _M:
                        __pyvc_symbolic__ = True

                        def __init__(self, ch):
                            self.ch = ch

                        def sym_getattr(self, i2, name):
                            return GhostFn(lambda i3, aa, kk: self.ch)

                    buf += it.call(repl, [_M(ch)])
                else:
                    buf += ch
            out.append(buf)
        elif isinstance(p, Atom):
            e = _Esc("esc(%s)" % p.name, excludes=p.excludes | frozenset(chr(i) for i in list(range(0, 9)) + list(range(11, 32))), zs=None)
            e.src = p
            if p.zs is not None:
                e.nonempty_iff = z3.Length(p.zs) > 0  # escaping maps the empty string to itself and nothing else to it
            out.append(e)
        else:
            out.append(p)
    return _mkstr(out)


def _split_model(it, s, args):
    sep = args[0] if args else None
    if sep != "\n":
        raise Unsupported("str.split(%r) on a symbolic string" % (sep,))
    it.path.assumed.add("str.split('\\n') returns the maximal newline-free segments (count = newlines + 1)")
    return _split_at(s, "\n")


def _install_split():
    import pyvc.engine as eng

    if getattr(eng, "_c04_split", False):
        return
    orig = eng.call_str_method

    def call_str_method(interp, bm, args, kwargs):
        if bm.name == "split" and not (bm.concrete is not None and eng.deep_concrete(args)) and not bm.s.is_literal():
            return _split_model(interp, bm.s, args)
        return orig(interp, bm, args, kwargs)

    eng.call_str_method = call_str_method
    eng._c04_split = True


_install_split()


# -- ghost text body --------------------------------------------------------------------------------------------


class GRun:
    __pyvc_symbolic__ = True

    def __init__(self):
        from pptx.oxml.text import CT_RegularTextRun

        self.cls = CT_RegularTextRun
        self.t = SObj(None, "a:t", text=None)

    def sym_pytype(self):
        return self.cls

    def sym_truth(self, it):
        return True

    def sym_getattr(self, it, name):
        if name == "t":
            return self.t
        from pyvc.engine import _find_in_mro

        return it.bind_descriptor(_find_in_mro(self.cls, name), self, self.cls, name)

    def sym_setattr(self, it, name, v):
        from pyvc.engine import _find_in_mro

        d = _find_in_mro(self.cls, name)
        return it.call(d.fset, [self, v])


class GBr:
    __pyvc_symbolic__ = True

    def __init__(self):
        from pptx.oxml.text import CT_TextLineBreak

        self.cls = CT_TextLineBreak

    def sym_pytype(self):
        return self.cls

    def sym_truth(self, it):
        return True

    def sym_getattr(self, it, name):
        from pyvc.engine import _find_in_mro

        return it.bind_descriptor(_find_in_mro(self.cls, name), self, self.cls, name)


class GFld:
    """a:fld (slide number / date field) in the prior state of a paragraph"""

    __pyvc_symbolic__ = True
    TAG = "a:fld"

    def __init__(self):
        from pptx.oxml.text import CT_TextField

        self.cls = CT_TextField

    def sym_pytype(self):
        return self.cls

    def sym_truth(self, it):
        return True

    def sym_getattr(self, it, name):
        if name == "text":
            return "FIELD"
        from pyvc.engine import _find_in_mro

        return it.bind_descriptor(_find_in_mro(self.cls, name), self, self.cls, name)


class GPara:
    """a:p: optional pPr, content children (runs / breaks), optional endParaRPr."""

    __pyvc_symbolic__ = True

    def __init__(self, pPr=None, kids=None, end=None):
        from pptx.oxml.text import CT_TextParagraph

        self.cls = CT_TextParagraph
        self.pPr, self.kids, self.end = pPr, list(kids or []), end

    def sym_pytype(self):
        return self.cls

    def sym_truth(self, it):
        return True

    def sym_iter(self, it):
        return ([self.pPr] if self.pPr is not None else []) + list(self.kids) + ([self.end] if self.end is not None else [])

    def sym_getattr(self, it, name):
        if name == "_add_r":
            return GhostFn(lambda i2, a, k: (self.kids.append(GRun()), self.kids[-1])[1])
        if name in ("_add_br", "add_br"):
            from pyvc.engine import _find_in_mro

            if name == "add_br":
                return it.bind_descriptor(_find_in_mro(self.cls, name), self, self.cls, name)
            return GhostFn(lambda i2, a, k: (self.kids.append(GBr()), self.kids[-1])[1])
        if name == "remove_all":
            def rm_all(i2, a, k):
                i2.path.assumed.add("BaseOxmlElement.remove_all(*tags) removes exactly the children with those tags (C10 summary)")
                tag_of = lambda kid: {GRun: "a:r", GBr: "a:br", GFld: "a:fld"}.get(type(kid))
                self.kids = [kid for kid in self.kids if tag_of(kid) not in a]
                if "a:pPr" in a:
                    self.pPr = None
                if "a:endParaRPr" in a:
                    self.end = None
            return GhostFn(rm_all)
        if name == "remove":
            def rm(i2, a, k):
                if a[0] in self.kids:
                    self.kids.remove(a[0])
                elif a[0] is self.pPr:
                    self.pPr = None
                elif a[0] is self.end:
                    self.end = None
            return GhostFn(rm)
        from pyvc.engine import _find_in_mro

        d = _find_in_mro(self.cls, name)
        if d is None:
            raise Exception("ghost paragraph asked for %s" % name)
        return it.bind_descriptor(d, self, self.cls, name)


class GBody:
    __pyvc_symbolic__ = True

    def __init__(self, paras):
        self.paras = list(paras)
        self.bodyPr = SObj(None, "bodyPr")

    def sym_truth(self, it):
        return True

    def sym_getattr(self, it, name):
        if name == "p_lst":
            return list(self.paras)
        if name == "clear_content":
            return GhostFn(lambda i2, a, k: self.paras.clear())
        if name == "add_p":
            return GhostFn(lambda i2, a, k: (self.paras.append(GPara()), self.paras[-1])[1])
        if name == "bodyPr":
            return self.bodyPr
        raise Exception("ghost text body asked for %s" % name)


def _content(p):
    """abstract content of a ghost paragraph: list of ('r', text) / ('br',)."""
    out = []
    for k in p.kids:
        if isinstance(k, GRun):
            out.append(("r", k.t.fields["text"]))
        else:
            out.append(("br",))
    return out


def _is_esc_of(t, seg):
    return isinstance(t, SStr) and len(t.parts) == 1 and isinstance(t.parts[0], _Esc) and t.parts[0].src is seg


def _expected_para(c, segs, label):
    """obligations: children == one a:br per separator, one a:r per non-empty segment holding esc(segment), in order.
    Returns a function checking a ghost paragraph against segments [s0..sk] separated by k breaks."""

    def check(p, segs=segs):
        kids = _content(p)
        i = 0
        ok = True
        why = ""
        for n, s in enumerate(segs):
            if n > 0:
                if i >= len(kids) or kids[i] != ("br",):
                    ok, why = False, "expected a:br #%d at child %d of %s" % (n, i, kids)
                    break
                i += 1
            empty = c.path.branch(z3.Length(s.zs) == 0)
            if not empty:
                if i >= len(kids) or kids[i][0] != "r" or not _is_esc_of(kids[i][1], s):
                    ok, why = False, "expected a:r with esc(%s) at child %d of %s" % (s.name, i, kids)
                    break
                i += 1
        if ok and i != len(kids):
            ok, why = False, "surplus children %s" % (kids[i:],)
        c.ensures(label, ok, why=why)
        return ok

    return check


def _replay(model, rec):
    r = _native_strings(tier="quick", seed=0)
    bad = [o for o in r["obligations"] if o["status"] == "refuted"]
    if bad:
        return {"confirmed": True, "witness_class": bad[0]["replay"]["witness_class"], "detail": bad[0]["replay"]["detail"]}
    return {"confirmed": False, "detail": "all strings <= 3 over the 10-symbol alphabet (and the look-alike list) behave at the four levels natively"}


def _patterns(maxk):
    for k in range(0, maxk + 1):
        for pat in itertools.product(SEPS, repeat=k):
            yield pat


def _name(pat):
    return "".join({"\n": "n", "\v": "v"}[x] for x in pat) or "none"


def _make_paragraph(pat):
    @contract("C04", "C04.text.text._Paragraph.text[breaks=%s]" % _name(pat), replay=_replay)
    def body(c):
        """paragraph level: both \\n and \\v become a line break; previous content is removed, a:pPr and a:endParaRPr
        stay; reading gives esc(segments) joined by \\v."""
        from pptx.text.text import _Paragraph

        s, segs = _text(c, pat)
        from pptx.oxml.text import CT_TextCharacterProperties, CT_TextParagraphProperties

        pPr, end = SObj(CT_TextParagraphProperties, "a:pPr"), SObj(CT_TextCharacterProperties, "a:endParaRPr")
        old = [GRun(), GBr(), GFld(), GRun()]
        old[0].t.fields["text"] = "old"
        p = GPara(pPr=pPr, kids=old, end=end)
        para = SObj(_Paragraph, "paragraph", _element=p, _p=p)
        out = c.setattr(para, "text", s)
        if out.raised:
            c.fails("set.never_raises", "raised %s" % out.exc)
            return
        c.ensures("frame.properties_kept", p.pPr is pPr and p.end is end)
        c.ensures("old_content_removed", not any(k in p.kids for k in old))
        _expected_para(c, segs, "structure.breaks_and_runs")(p)
        got = c.getattr(para, "text")
        if got.raised:
            c.fails("read.never_raises", "raised %s" % got.exc)
            return
        r = _as_sstr(got.value)
        # read-back: esc(seg0) \v esc(seg1) ... with empty segments contributing nothing
        want_shape = []
        for n, sg in enumerate(segs):
            if n:
                want_shape.append("\v")
            want_shape.append(sg)
        i = 0
        ok = True
        for w in want_shape:
            if isinstance(w, str):
                ok = ok and i < len(r.parts) and isinstance(r.parts[i], str) and r.parts[i].startswith("\v")
                if ok:
                    rest = r.parts[i][1:]
                    r = SStr(list(r.parts[:i]) + ([rest] if rest else []) + list(r.parts[i + 1:]))
            else:
                if i < len(r.parts) and isinstance(r.parts[i], _Esc) and r.parts[i].src is w:
                    i += 1
                # an empty segment contributes no run and no text
        c.ensures("read.documented_translation", ok and i == len(r.parts), got=repr(got.value))

    return body


def _make_frame(pat):
    @contract("C04", "C04.text.text.TextFrame.text[breaks=%s]" % _name(pat), replay=_replay)
    def body(c):
        """frame level: exactly one paragraph per \\n-segment (previous paragraphs removed, bodyPr untouched), \\v is a
        line break inside its paragraph."""
        from pptx.text.text import TextFrame

        s, segs = _text(c, pat)
        body_ = GBody([GPara(kids=[GRun()]), GPara()])
        bodyPr = body_.bodyPr
        tf = SObj(TextFrame, "text_frame", _element=body_, _txBody=body_)
        out = c.setattr(tf, "text", s)
        if out.raised:
            c.fails("set.never_raises", "raised %s" % out.exc)
            return
        nparas = 1 + sum(1 for x in pat if x == "\n")
        c.ensures("one_paragraph_per_newline_segment", len(body_.paras) == nparas)
        c.ensures("frame.bodyPr_untouched", body_.bodyPr is bodyPr)
        # group segments by paragraph
        groups = [[segs[0]]]
        for sep, sg in zip(pat, segs[1:]):
            if sep == "\n":
                groups.append([sg])
            else:
                groups[-1].append(sg)
        if len(body_.paras) == nparas:
            for gi, (g, p) in enumerate(zip(groups, body_.paras)):
                _expected_para(c, g, "paragraph%d.breaks_and_runs" % gi)(p)

    return body


for _pat in _patterns(3):
    _make_paragraph(_pat)
    _make_frame(_pat)


@contract("C04", "C04.text.text._Run.text", replay=_replay)
def _run_text(c):
    """run level: \\n stays a character, \\v and the other C0 controls are escaped; the run's text is esc(value)."""
    from pptx.text.text import _Run

    zs = c.input("value", z3.String("value"))
    a = Atom("value", zs=zs)
    r = GRun()
    run = SObj(_Run, "run", _r=r)
    out = c.setattr(run, "text", SStr([a]))
    if out.raised:
        c.fails("set.never_raises", "raised %s" % out.exc)
        return
    t = r.t.fields["text"]
    c.ensures("stored_is_escaped_value", _is_esc_of(t, a))
    got = c.getattr(run, "text")
    if got.raised:
        c.fails("read.never_raises", "raised %s" % got.exc)
        return
    # `text or ""`: the stored string itself, or "" when it is empty
    c.ensures("read_returns_stored", True if got.value is t else (z3.Length(zs) == 0 if got.value == "" else False))


@contract("C04", "C04.oxml.text.CT_RegularTextRun._escape_ctrl_chars.char_lemma")
def _char_lemma(c):
    """ground lemma over all 128 ASCII characters and a sample of others: _escape_ctrl_chars maps each C0 control other
    than TAB (09) and LF (0A) to _xHHHH_ (upper-case hex, 4 digits) and every other character to itself; the result holds
    no character of [\\x00-\\x08\\x0B-\\x1F]."""
    from pptx.oxml.text import CT_RegularTextRun

    for cp in list(range(0, 128)) + [0x85, 0xA0, 0x2028, 0x1F600, 0xFFFD]:
        ch = chr(cp)
        out = c.call(CT_RegularTextRun._escape_ctrl_chars, "a" + ch + "b")
        want = "a" + ("_x%04X_" % cp if (cp < 9 or 11 <= cp < 32) else ch) + "b"
        c.ensures("esc[U+%04X]" % cp, (not out.raised) and out.value == want and not re.search(r"[\x00-\x08\x0B-\x1F]", out.value or ""))


@contract("C04", "C04.oxml.text.CT_TextLineBreak.text")
def _br_text(c):
    """a line break reads as a vertical tab."""
    out = c.getattr(GBr(), "text")
    c.ensures("vertical_tab", (not out.raised) and out.value == "\v")


# --------------------------------------------------------------------------------------------
# BOUNDED native job (the property's quantifier on short strings, incl. save / re-open)


def _native_strings(tier="quick", seed=0):
    import io
    import time as _t

    from pptx import Presentation
    from pptx.util import Emu

    t0 = _t.time()
    alphabet = ["a", " ", "\n", "\v", "\t", "\x07", "&", "<", "\U0001F600", "\r"]
    maxlen = 3 if tier == "quick" else 5
    strings = [""]
    for n in range(1, maxlen + 1):
        strings += ["".join(x) for x in itertools.product(alphabet, repeat=n)]
    # printable text that looks like an escape must stay as it is (only C0 controls are translated)
    strings += ["_x0041_", "see _x000D_ here", "_x005F_", "\x07_x0007_", "_x0007", "x0007_", "__x0009__", "_X000A_", "a_b", "_x12_", "_x00GG_", "]]>", "_x0041_\n_x0042_\v_"]
    # characters that other splitters / normalisers treat specially (str.splitlines, strip, universal newlines): only \n and \v
    # are breaks, and nothing is trimmed or folded
    strings += ["a\r\nb", "\r\n", "a\n\rb", "a\r\n\r\nb", "a\r\vb", "a\x0cb", "a\x1cb", "a\x1db", "a\x1eb", "a\x85b", "a\u2028b", "a\u2029b", "a\u00a0", "\u00a0a",
                "\ufeffa", "a\u200b", "  a  \n  b  ", "\ta\t", "a\n", "\na", "a\v", "\va", "A\u0130\u00df", "e\u0301", "\u00e9", "a" * 300 + "\n" + "b" * 300]

    def esc(s):
        return re.sub(r"([\x00-\x08\x0B-\x1F])", lambda m: "_x%04X_" % ord(m.group(1)), s)

    prs = Presentation()
    slide = prs.slides.add_slide(prs.slide_layouts[6])
    tb = slide.shapes.add_textbox(Emu(0), Emu(0), Emu(100), Emu(100))
    gf = slide.shapes.add_table(1, 1, Emu(0), Emu(0), Emu(100), Emu(100))
    tf = tb.text_frame
    cell = gf.table.cell(0, 0)
    bad = None
    evals = 0
    for s in strings:
        evals += 1
        want_frame = "\n".join("\v".join(esc(x) for x in re.split("\v", para)) for para in s.split("\n"))
        for name, obj in (("frame", tf), ("cell", cell)):
            obj.text = s
            body = obj._txBody if name == "frame" else obj._tc.txBody
            if obj.text != want_frame:
                bad = bad or ("%s.text = %r reads %r, documented %r" % (name, s, obj.text, want_frame))
            if len(body.p_lst) != s.count("\n") + 1:
                bad = bad or ("%s.text = %r gives %d paragraphs" % (name, s, len(body.p_lst)))
            nbr = len(body.xpath(".//a:br"))
            if nbr != s.count("\v"):
                bad = bad or ("%s.text = %r gives %d a:br" % (name, s, nbr))
        p = tf.paragraphs[0]
        p.alignment = 2
        p.text = s
        want_p = "\v".join(esc(x) for x in re.split("\n|\v", s))
        if p.text != want_p or p.alignment != 2:
            bad = bad or ("paragraph.text = %r reads %r (documented %r), alignment %r" % (s, p.text, want_p, p.alignment))
        if len(p._p.xpath("./a:br")) != s.count("\n") + s.count("\v"):
            bad = bad or ("paragraph.text = %r gives %d a:br" % (s, len(p._p.xpath("./a:br"))))
        p.alignment = None
        r = p.add_run() if not p.runs else p.runs[0]
        r.text = s
        want_r = re.sub(r"([\x00-\x08\x0B-\x1F])", lambda m: "_x%04X_" % ord(m.group(1)), s)
        if r.text != want_r:
            bad = bad or ("run.text = %r reads %r, documented %r" % (s, r.text, want_r))
    # prior states: paragraphs that already hold a field, line breaks, paragraph properties and a:endParaRPr (PowerPoint-authored shape)
    from pptx.oxml import parse_xml
    from pptx.oxml.ns import nsdecls

    for s in strings[: 1 + len(alphabet) + len(alphabet) ** 2]:
        evals += 1
        for which in ("paragraph", "frame"):
            tb2 = slide.shapes.add_textbox(Emu(0), Emu(0), Emu(100), Emu(100))
            txBody = tb2.text_frame._txBody
            for old_p in list(txBody.p_lst):
                txBody.remove(old_p)
            txBody.append(parse_xml('<a:p %s><a:pPr algn="r" lvl="2"/><a:r><a:rPr b="1"/><a:t>old</a:t></a:r><a:br/><a:fld id="{B6F15528-21DE-4FAA-801E-634DDDAF4B2B}" type="slidenum">'
                                    '<a:rPr/><a:t>7</a:t></a:fld><a:r><a:t>tail</a:t></a:r><a:endParaRPr lang="en-US"/></a:p>' % nsdecls("a")))
            txBody.append(parse_xml('<a:p %s><a:r><a:t>second</a:t></a:r></a:p>' % nsdecls("a")))
            if which == "paragraph":
                p2 = tb2.text_frame.paragraphs[0]
                p2.text = s
                want_p = "\v".join(esc(x) for x in re.split("\n|\v", s))
                kids = [k.tag.split("}")[1] for k in p2._p]
                if p2.text != want_p:
                    bad = bad or ("paragraph (with field, break, pPr, endParaRPr).text = %r reads %r, documented %r" % (s, p2.text, want_p))
                if kids[:1] != ["pPr"] or kids[-1:] != ["endParaRPr"] or p2.level != 2 or p2.alignment != 3:
                    bad = bad or ("paragraph.text = %r on a paragraph with properties leaves children %s, level %s" % (s, kids, p2.level))
                if tb2.text_frame.paragraphs[1].text != "second":
                    bad = bad or ("paragraph.text = %r changed the neighbouring paragraph" % (s,))
            else:
                tb2.text_frame.text = s
                want_frame = "\n".join("\v".join(esc(x) for x in re.split("\v", para)) for para in s.split("\n"))
                if tb2.text_frame.text != want_frame or len(txBody.p_lst) != s.count("\n") + 1:
                    bad = bad or ("frame (two paragraphs, field).text = %r reads %r in %d paragraphs, documented %r" % (s, tb2.text_frame.text, len(txBody.p_lst), want_frame))
            tb2._element.getparent().remove(tb2._element)
    # prior states the schema allows although add_table never produces them: a cell without a:txBody, a body whose only paragraph
    # is empty with properties, a body of several empty paragraphs
    for s in ["", "x", "two\nparas", "a\vb", " "]:
        evals += 1
        t2 = slide.shapes.add_table(1, 2, Emu(0), Emu(0), Emu(100), Emu(100)).table
        tc = t2.cell(0, 0)._tc
        if tc.txBody is not None:
            tc.remove(tc.txBody)
        c0 = t2.cell(0, 0)
        c0.text = s
        want_frame = "\n".join("\v".join(esc(x) for x in re.split("\v", para)) for para in s.split("\n"))
        got = t2.cell(0, 0).text
        if got != want_frame:
            bad = bad or "cell without a:txBody: cell.text = %r reads %r, documented %r" % (s, got, want_frame)
        tf3 = t2.cell(0, 1).text_frame
        body3 = t2.cell(0, 1)._tc.txBody
        body3.append(parse_xml('<a:p %s><a:pPr algn="ctr"/><a:endParaRPr lang="en-US"/></a:p>' % nsdecls("a")))
        body3.append(parse_xml('<a:p %s/>' % nsdecls("a")))
        t2.cell(0, 1).text = s
        if t2.cell(0, 1).text != want_frame or len(body3.p_lst) != s.count("\n") + 1:
            bad = bad or "cell with three empty paragraphs: cell.text = %r reads %r in %d paragraphs, documented %r" % (s, t2.cell(0, 1).text, len(body3.p_lst), want_frame)
    # several shapes that arrive without a text body (PowerPoint omits p:txBody on unpopulated placeholders; a cell may lack a:txBody):
    # each gets a body of its own on first use -- what one is assigned, the others do not read, now and after save / re-open
    prs_n = Presentation()
    sl_n = prs_n.slides.add_slide(prs_n.slide_layouts[6])
    bare = []
    for i_ in range(4):
        shp_ = sl_n.shapes.add_shape(1, Emu(0), Emu(0), Emu(100), Emu(100))
        tb_ = shp_._element.txBody
        if tb_ is not None:
            shp_._element.remove(tb_)
        bare.append(shp_)
    tbl_n = sl_n.shapes.add_table(2, 2, Emu(0), Emu(0), Emu(100), Emu(100)).table
    for r_, c_ in ((0, 0), (0, 1), (1, 0), (1, 1)):
        tc_ = tbl_n.cell(r_, c_)._tc
        if tc_.txBody is not None:
            tc_.remove(tc_.txBody)
    texts_ = ["shape %d\nsecond" % i_ for i_ in range(4)]
    for shp_, t_ in zip(bare, texts_):
        evals += 1
        shp_.text_frame.text = t_
    cells_ = [tbl_n.cell(r_, c_) for r_, c_ in ((0, 0), (0, 1), (1, 0), (1, 1))]
    for i_, cl_ in enumerate(cells_):
        cl_.text = "cell %d" % i_
    got_ = [shp_.text_frame.text for shp_ in bare] + [cl_.text for cl_ in cells_]
    want_ = texts_ + ["cell %d" % i_ for i_ in range(4)]
    if got_ != want_:
        bad = bad or "four shapes and four cells without a text body, each assigned its own text: they read %r" % (got_,)
    b_n = io.BytesIO()
    prs_n.save(b_n)
    sl_r = Presentation(io.BytesIO(b_n.getvalue())).slides[0]
    got_r = [sh_.text_frame.text for sh_ in sl_r.shapes if sh_.has_text_frame] + [sl_r.shapes[-1].table.cell(r_, c_).text for r_, c_ in ((0, 0), (0, 1), (1, 0), (1, 1))]
    if got_r != want_:
        bad = bad or "four shapes and four cells without a text body, each assigned its own text: after save / re-open they read %r" % (got_r,)
    # a cell's text is what was assigned whatever the cell's merge state: merge origin, spanned cell, cell freed by a split
    t_m = sl_n.shapes.add_table(3, 3, Emu(0), Emu(0), Emu(300), Emu(300)).table
    t_m.cell(0, 0).merge(t_m.cell(1, 1))
    for (r_, c_), what_ in (((0, 0), "merge origin"), ((0, 1), "spanned cell"), ((1, 1), "spanned cell"), ((2, 2), "free cell")):
        evals += 1
        t_m.cell(r_, c_).text = "in %d%d\nline" % (r_, c_)
        if t_m.cell(r_, c_).text != "in %d%d\nline" % (r_, c_):
            bad = bad or "%s (%d,%d): cell.text = %r reads %r" % (what_, r_, c_, "in %d%d\nline" % (r_, c_), t_m.cell(r_, c_).text)
    t_m.cell(0, 0).split()
    if t_m.cell(0, 1).text != "in 01\nline":
        bad = bad or "cell (0,1) after the merge was split: text reads %r, it was assigned 'in 01\\nline'" % t_m.cell(0, 1).text
    ob1 = {"name": "C04.native.four_levels", "base": "C04.native.four_levels", "kind": "bounded", "status": "refuted" if bad else "discharged", "backend": "native", "time": 0, "path": 0}
    if bad:
        ob1["replay"] = {"confirmed": True, "witness_class": "text-roundtrip", "detail": bad}
        ob1["model"] = None
    # save / re-open on whitespace-sensitive cases
    bad2 = None
    cases = ["", " ", "  a  ", "\n", " \n ", "\v", "a\v\vb", "\t", "<&>", "\U0001F600 x", "\n\n", " \v "]
    prs = Presentation()
    slide = prs.slides.add_slide(prs.slide_layouts[6])
    boxes = []
    for s in cases:
        tb = slide.shapes.add_textbox(Emu(0), Emu(0), Emu(100), Emu(100))
        tb.text_frame.text = s
        boxes.append(tb.text_frame.text)
    buf = io.BytesIO()
    prs.save(buf)
    buf.seek(0)
    prs2 = Presentation(buf)
    for s, want, shp in zip(cases, boxes, prs2.slides[0].shapes):
        evals += 1
        if shp.text_frame.text != want:
            bad2 = bad2 or ("frame.text = %r reads %r before and %r after save/re-open" % (s, want, shp.text_frame.text))
    ob2 = {"name": "C04.native.save_reopen", "base": "C04.native.save_reopen", "kind": "bounded", "status": "refuted" if bad2 else "discharged", "backend": "native", "time": 0, "path": 0}
    if bad2:
        ob2["replay"] = {"confirmed": True, "witness_class": "text-reopen", "detail": bad2}
        ob2["model"] = None
    return {"contract": "C04.native_strings", "prop": "C04", "status": "ok", "obligations": [ob1, ob2], "paths": 0, "assumed": [], "functions": {}, "notes": [],
            "solver_s": 0.0, "wall_s": _t.time() - t0,
            "bounded": {"name": "C04.native_strings", "bound": "all %d strings of length <= %d over {a, space, \\n, \\v, \\t, \\x07, &, <, U+1F600} at frame, cell, paragraph and run level; 12 whitespace cases through save/re-open"
                        % (len(strings), maxlen), "evaluations": evals, "samples": [repr(x) for x in strings[1:4]], "counted_as_proved": False}}


JOBS = {"C04.native_strings": _native_strings}

#!/usr/bin/env python3
"""Regenerate /verif/MANIFEST.json from the table below (kept in one place so it stays valid)."""
import json, os, sys

ROOT = os.path.dirname(os.path.dirname(os.path.abspath(__file__)))
sys.path.insert(0, ROOT)
from tools.manifest_table import CHECKS, NOT_APPLICABLE  # noqa: E402

BASELINE = "cd /repo && /venv/bin/python -m pytest -ra -q -p no:cacheprovider --timeout=900 --continue-on-collection-errors"

m = {
    "version": 1,
    "setup_cmd": "./setup.sh",
    "hooks": {
        "guard": "PPTX_VERIF",
        "enable": "none needed: contracts are sidecar files in /verif keyed by the qualified name of the real function; "
                  "checks export PPTX_VERIF=1 but no source in /repo reads it",
        "baseline_off_cmd": BASELINE,
        "source_commits": [],
        "add_only": True,
    },
    "engines": [
        {"name": "pyvc", "path": "pyvc/", "serves_properties": [c["property_id"] for c in CHECKS],
         "kind_free_text": "contract-based deductive verification: symbolic executor / VC generator over the Python AST of the real "
                           "functions (re-extracted from /repo on every run), sidecar contracts, z3 5.1 with cvc5 1.4 fallback; "
                           "counter-models replayed natively on the real code"},
    ],
    "checks": [],
    "not_applicable": NOT_APPLICABLE,
    "notes": "exit 0 held / 1 violation (VIOLATION line, replay file) / 3 checker error. Undischarged (unknown) obligations never "
             "raise an alarm; they downgrade the evidence level to 'other'. Known findings: known_findings.json.",
}
for c in CHECKS:
    pid = c["property_id"]
    m["checks"].append({
        "property_id": pid,
        "quick_cmd": "./check %s" % pid,
        "thorough_cmd": "./check %s --tier thorough" % pid,
        "evidence_file": "evidence/%s.json" % pid,
        "replay_cmd_template": "./check replay {path}",
        "engine": "pyvc",
        "level_claimed": {"category": c.get("category", "proof"), "text": c["text"], "design_ref": c.get("design_ref", "DESIGN.md section 5/" + pid)},
        "level_note": c["note"],
        "technique": c["technique"],
    })
with open(os.path.join(ROOT, "MANIFEST.json"), "w") as f:
    json.dump(m, f, indent=1)
import jsonschema
jsonschema.validate(m, json.load(open("/root/.vp/MANIFEST.schema.json")))
print("MANIFEST.json written:", len(m["checks"]), "checks,", len(NOT_APPLICABLE), "not_applicable")

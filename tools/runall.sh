#!/bin/sh
# run every claimed check's quick command on the current tree; print one line per check
cd "$(dirname "$0")/.."
for p in $(python3 -c "import json;print(' '.join(c['property_id'] for c in json.load(open('MANIFEST.json'))['checks']))"); do
  out=$(./check $p 2>&1); rc=$?
  echo "rc=$rc $(echo "$out" | tail -1)"
  echo "$out" | grep "^VIOLATION\|^CHECKER" | head -5
done

#!/usr/bin/env python3
"""Confirm a seeded property-breaking change and run the checks against it.

  seedrun.py <seed-id> <property> <dir-with-patch.diff+demo.py+notes.txt> [extra check props...]

1. in a scratch worktree of /repo (removed afterwards): demo passes without the patch, fails with it, the pinned
   test-suite still gives 566 passed with it;
2. applies the patch to /repo, runs ./check <property> (and extra props), undoes it (git checkout -- .);
3. stores patch.diff, demo, meta.json under /verif/seeded/<seed-id>/.
"""
import json, os, shutil, subprocess, sys, tempfile

seed, prop, src = sys.argv[1:4]
extra = sys.argv[4:]
root = os.path.dirname(os.path.dirname(os.path.abspath(__file__)))
dst = os.path.join(root, "seeded", seed)
os.makedirs(dst, exist_ok=True)
for f in ("patch.diff", "demo.py", "notes.txt"):
    if os.path.exists(os.path.join(src, f)) and os.path.abspath(src) != os.path.abspath(dst):
        shutil.copy(os.path.join(src, f), os.path.join(dst, f))
patch = os.path.join(dst, "patch.diff")
wt = tempfile.mkdtemp(prefix="seedwt_", dir="/tmp")
os.rmdir(wt)
meta = {"seed": seed, "property": prop, "ran": []}


def sh(cmd, cwd=None, env=None):
    r = subprocess.run(cmd, shell=True, cwd=cwd, env=env, capture_output=True, text=True)
    return r.returncode, (r.stdout + r.stderr)


try:
    rc, out = sh("git -C /repo worktree add -q %s HEAD" % wt)
    assert rc == 0, out
    env = dict(os.environ, PYTHONPATH=os.path.join(wt, "src"))
    # demos may locate spec files relative to their own path (<worktree>/out/<n>/demo.py)
    os.makedirs(os.path.join(wt, "out", "x"), exist_ok=True)
    demo = os.path.join(wt, "out", "x", "demo.py")
    shutil.copy(os.path.join(dst, "demo.py"), demo)
    rc0, o0 = sh("/venv/bin/python %s" % demo, cwd=wt, env=env)
    if rc0 != 0:
        # demos written next to patch.diff locate repository files as <worktree>/out/../...
        demo = os.path.join(wt, "out", "demo.py")
        shutil.copy(os.path.join(dst, "demo.py"), demo)
        rc0, o0 = sh("/venv/bin/python %s" % demo, cwd=wt, env=env)
    rc, out = sh("git apply %s" % patch, cwd=wt)
    assert rc == 0, "patch does not apply: " + out
    rc1, o1 = sh("/venv/bin/python %s" % demo, cwd=wt, env=env)
    rct, ot = sh("/venv/bin/python -m pytest -q -p no:cacheprovider --timeout=900 --continue-on-collection-errors 2>&1 | tail -1", cwd=wt, env=env)
    meta["demo_unpatched_rc"] = rc0
    meta["demo_patched_rc"] = rc1
    meta["demo_patched_tail"] = o1.strip().splitlines()[-3:]
    meta["testsuite_with_patch"] = ot.strip()
    meta["confirmed"] = (rc0 == 0 and rc1 != 0 and "566 passed" in ot)
finally:
    sh("git -C /repo worktree remove --force %s" % wt)
# checks against /repo itself
rc, out = sh("git -C /repo status --porcelain")
assert out.strip() == "", "/repo not clean: " + out
try:
    rc, out = sh("git -C /repo apply %s" % patch)
    assert rc == 0, out
    meta["checks"] = {}
    for p in [prop] + extra:
        rcc, outc = sh("./check %s --no-evidence" % p, cwd=root)
        viol = [l for l in outc.splitlines() if l.startswith("VIOLATION")]
        meta["checks"][p] = {"exit": rcc, "violations": [v.split("obligation=")[-1] for v in viol][:8], "summary": outc.strip().splitlines()[-1] if outc.strip() else ""}
finally:
    sh("git -C /repo checkout -- .")
    shutil.rmtree(os.path.join(root, "replays", prop), ignore_errors=True)
meta["detected_by"] = [p for p, r in meta.get("checks", {}).items() if r["exit"] == 1]
notes = os.path.join(dst, "notes.txt")
meta["needs"] = open(notes).read()[:1500] if os.path.exists(notes) else ""
meta["ran"] = ["scratch worktree: demo.py without patch (rc %s), with patch (rc %s), pinned test-suite with patch (%s)" % (meta.get("demo_unpatched_rc"), meta.get("demo_patched_rc"), meta.get("testsuite_with_patch")),
               "git -C /repo apply patch.diff; ./check %s; git -C /repo checkout -- ." % " ".join([prop] + extra)]
json.dump(meta, open(os.path.join(dst, "meta.json"), "w"), indent=1)
print(json.dumps({k: meta[k] for k in ("seed", "confirmed", "detected_by", "checks")}, indent=1))

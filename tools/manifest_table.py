"""Per-property MANIFEST entries (edited by hand as checks are built)."""

CHECKS = [
    {
        "property_id": "C17",
        "technique": "contract-based deductive verification (pyvc VC generation over real source, z3/cvc5)",
        "text": "Every path of the real connector endpoint setters/getters and of _add_cxnSp is symbolically executed from the "
                "live source and each postcondition (moved endpoint == value, other endpoint fixed, extents >= 0, frame on the "
                "other axis) is discharged by z3 for all integers; group-extent and freeform-bound contracts likewise. "
                "Unbounded in the inputs, so sequences of assignments are covered by induction over the per-call contract.",
        "note": "Trusted: pyvc's encoding of the Python subset (ints exact, floats as reals), z3/cvc5 unsat answers, xfrm "
                "attributes as independent abstract fields (C09 obligation). Termination not proved. The bounded C17.native_geometry "
                "job repeats the facts through the public API (81 connectors x end-point moves, refused moves, nested group boxes "
                "with zero-size members; never counted as proved).",
    },
    {
        "property_id": "C11",
        "technique": "contract-based deductive verification (pyvc VC generation over real source, z3/cvc5; XSD facets as oracle)",
        "category": "proof",
        "text": "For every (simple-type class, XSD simple type) pair -- pairing recovered mechanically from the attribute declarations "
                "and the XSD attribute they denote -- the real to_xml/from_xml/validate/convert_* sources are executed symbolically "
                "per input kind (int, float as real, bool, str as z3 string, None) and per lexical alternative of the schema type; "
                "obligations: accepted => written form in the type's lexical space (facets parsed from the XSD at run time), "
                "representable => accepted, rejection only by TypeError/ValueError, every lexical alternative readable, "
                "from_xml(to_xml(v)) within the quantum; XML-mapped enumerations as ground obligations per member and per schema token. "
                "Evidence level is 'other' while known findings (refuted obligations) exist.",
        "note": "Assumed: IEEE double = reals (complemented by the bounded C11.ieee_probes job, never counted as proved); Python's "
                "int()/float()/str.isdigit() lexical grammars (z3 regexes built from the interpreter's Unicode tables); XSD files are "
                "the standard; XSD patterns using \\p{..}/class subtraction are undecided (ST_ContentType). 25 known findings "
                "F17-F20 (known_findings.json); F1, F2, F11, F15 repaired by fix: commits. Also: both spellings of one quantity "
                "(percent string / universal measure vs plain integer) read as the same value; the rejection clause of every xmlchemy "
                "attribute setter (rejected => nothing written); and the bounded C11.native_rejections job (object-model setters "
                "with out-of-domain values: refused, nothing changes).",
    },
    {
        "property_id": "C20",
        "technique": "contract-based verification, ground obligations over tables extracted from the live modules vs XSD / presetShapeDefinitions.xml",
        "category": "proof",
        "text": "Finite and fully enumerated: for every member of every XML-mapped enumeration the real to_xml/from_xml sources are "
                "executed (closed terms) and token distinctness, from_xml(to_xml(m)) is m and membership of the token in the paired "
                "XSD enumeration are discharged; for every MSO_SHAPE member prst is looked up in presetShapeDefinitions.xml and the "
                "avLst (names, order, defaults) compared; every auto shape and every writable chart type is added and read back "
                "natively (exhaustive over the finite domain). Evidence level is 'other' while known findings exist.",
        "note": "Oracles: XSD enumeration facets and presetShapeDefinitions.xml read from /repo/spec at run time (the file's known "
                "erratum -- upDownArrow defined twice, upArrow missing -- is handled explicitly). Pairing enum->XSD type recovered "
                "from attribute declarations except MSO_CONNECTOR_TYPE (stated). Known findings F19 (7 members sharing a token); "
                "F21, F23 repaired by fix: commits. Guides are matched to adjustments by name: contract on "
                "_update_adjustments_with_actuals with list lengths enumerated (1..3 adjustments x 0..3 guides, names and values symbolic); "
                "longer / reordered / partial guide lists on every preset only in the bounded native job.",
    },
    {
        "property_id": "C10",
        "technique": "contract-based deductive verification (pyvc over real xmlchemy closures on an abstract element; XSD content models as oracle; z3)",
        "category": "proof",
        "text": "For every registered element class x every XSD complex type its tag can have x every child declaration whose generated "
                "mutators are referenced in src/pptx, the real generated method (_insert_x, _add_x, get_or_add_x, get_or_change_to_x, add_x; "
                "hand-written overrides included) and the real insert_element_before / remove_all callers are executed symbolically on an "
                "abstract parent whose children are an unbounded universally quantified sequence valid for the type's content model "
                "(slots, order, multiplicity extracted from the XSD on every run). Obligations: order and multiplicity still valid, "
                "required children still present, exactly one child / one group member, unchanged if present. Hand-written insertions "
                "(CT_GroupShape.add_*, add_chart) likewise. Unbounded in the sibling context: covers siblings only PowerPoint writes.",
        "note": "Assumed: lxml element API contracts (find/append/addprevious/remove/iteration in document order, pyvc/elem.py); "
                "BaseOxmlElement.remove_all enters as a summary (its findall loop is not proved); single-occurrence choice slots carry "
                "the caller obligation 'other members absent' (listed in evidence notes). Declarations whose mutators are never "
                "referenced carry no obligation (listed). F3, F12, F24, F25 found by these obligations and repaired by fix: commits. "
                "Hand-written members of the element classes (property setters, get_or_add_* / add_* / remove_* methods) carry a "
                "generic contract 'children stay in schema order with schema multiplicities' on the same model (argument opaque or one "
                "representative per kind the code asks about; what a child does to its own subtree is assumed not to move its "
                "siblings); classes whose XSD type is not flattened, and members listed in _HW_NO_CONTRACT, are covered only by the "
                "bounded C10.native_mutators job (the members singly and in ordered pairs on elements of real parts; hand-written property "
                "setters with nine representative values, once and twice; every zero-argument creator called twice must give two elements; "
                "every zero-argument remover must remove every child of the kind where the schema lets the child repeat). The truth value of "
                "an element (lxml: 'has children') is outside the supported subset.",
    },
    {
        "property_id": "C06",
        "technique": "contract-based deductive verification (pyvc: loop invariants, quantified id populations, ghost state; z3 E-matching)",
        "category": "proof",
        "text": "Each allocator is executed symbolically from its real source against an unbounded, universally quantified population "
                "of existing ids/keys/names: CT_SlideIdList._next_id (range 256..2147483647, freshness incl. the sorted/enumerate "
                "fallback, never raises), CT_GroupShape.max_shape_id/_next_shape_id over arbitrary @id strings (z3 strings, Unicode "
                "digit tables), _BaseShapes._next_shape_id and turbo_add_enabled with the data-structure invariant TURBO and its "
                "preservation by the group/freeform paths, _Relationships._next_rId, OpcPackage.next_partname, "
                "Package.next_image/media_partname, _next_cTn_id, _next_ph_name, rename_slide_parts (loop invariant over an array "
                "of part names, frame for other parts), _next_slide_partname. Loops carry invariants (init/keep/use), nothing is unrolled.",
        "note": "Assumed: lxml xpath results are 'the sequence of those attribute values'; Python built-ins (max, sorted, enumerate, "
                "len, next, str.isdecimal, int()) by their stated contracts; pigeonhole facts for the 'never falls through' clauses "
                "(stated assumptions); next_media_partname: every /ppt/media/media* part carries a number. Termination of "
                "_next_ph_name's search is not proved. F6, F7, F8 found by these obligations and repaired by fix: commits. "
                "Whole-deck behaviour (ids of existing shapes and slides never change, a relationship id still referenced keeps its "
                "target, part names unique, slide parts named in presentation order) is observed after every step of random "
                "addition histories by the bounded C06.native_histories job (never counted as proved).",
    },
    {
        "property_id": "C08",
        "technique": "contract-based deductive verification (pyvc over the real workbook writers; generic series index, loop contracts, unwinding assertion; z3)",
        "category": "proof",
        "text": "The *_ref formulas (CategoryWorkbookWriter, XyWorkbookWriter, BubbleWorkbookWriter) and the cells written by the real "
                "_populate_worksheet/_write_series/_write_categories/_write_cat_column are computed symbolically for a generic series "
                "k of an unbounded chart-data sequence with arbitrary series lengths; obligations: reference column/rows == written "
                "cell, range size == point count, XY/bubble tables of successive series do not overlap (offset recurrence), "
                "_column_reference is the bijective base-26 numeral for 1..16384 (loop unwound 3x with the unwinding assertion "
                "discharged) and raises ValueError outside, data_point_offset/series_index by loop invariants, date serials vs "
                "the workbook's date system.",
        "note": "Assumed: XlsxWriter write(r,c,v)/write_column(r,c,vs) address 0-based cells and store dates in the 1900 system "
                "(probed natively by the bounded C08.workbook_readback job, never counted as proved); Categories.levels yields "
                "offsets 0 <= off < leaf_count (C07 contract); category depth <= 26. Known finding F14 (date1904 charts).",
    },
    {
        "property_id": "C18",
        "technique": "contract-based deductive verification (pyvc over the real CT_CoreProperties helpers; abstract datetimes; z3)",
        "category": "proof",
        "text": "The 11 string accessors (set: stored verbatim iff length <= 255, ValueError and no change otherwise; read: '' when "
                "absent/empty), revision (positive ints and bools stored and read back, others ValueError, reading of absent/empty/"
                "non-numeric/negative text gives 0), the three date properties (write/read lemma through strftime, the [:19] slice, "
                "the template loop and strptime; xsi:type on created/modified; non-datetimes rejected) and the W3CDTF offset "
                "arithmetic (local time minus signed offset) are obligations over all lengths / integers / instants, discharged "
                "from the real sources.",
        "note": "Assumed (probed natively by C18.native_roundtrip, never counted as proved): strftime field widths (glibc %Y unpadded), "
                "strptime needs a full match and inverts strftime, %04d renders 4 digits up to 9999, timedelta arithmetic, the offset "
                "regex. cp:coreProperties is abstracted to one optional child per property. XSD validity of core.xml and the "
                "save/re-open leg are bounded only. F9 and F26 repaired by fix: commits. The part-level setters (CorePropertiesPart.X) are under "
                "contract with the element's refusal as an uninterpreted predicate: an improper value never returns normally whatever the "
                "property currently reads. The default part's `modified` is checked natively under three process time zones.",
    },
    {
        "property_id": "C15",
        "technique": "contract-based deductive verification (pyvc over the real image helpers; chained contracts; z3 linear/non-linear real arithmetic)",
        "category": "proof",
        "text": "Image.dpi per input kind (absent, real pair, int pair, non-numeric components, non-tuple): each component in 1..2048, "
                "round(value) when plausible else 72; ImagePart._native_size = floor(914400*px/dpi) >= 446 with no division by zero "
                "given the dpi contract; ImagePart.scale: identity / native / aspect ratio within half an EMU; Image.ext and "
                "content_type over the format table extracted from the source (ground; every pair is a Default pair of the writer); "
                "_ImageParts._find_by_sha1 by loop invariant (finds a part with the digest iff one exists) and get_or_add_image_part "
                "(creates only when absent, hence one part per digest); placeholder crop arithmetic (one axis, symmetric, aspect "
                "ratio of the view exactly).",
        "note": "Assumed: Pillow reports format / pixel size >= 1x1 / dpi; SHA-1 injective on the inputs at hand; IEEE doubles as reals. "
                "_ImageParts.__iter__ (dedupe generator) enters as a ghost sequence. Byte-exactness, part naming across slides, "
                "misleading extensions, EXIF orientation 1..8 (JPEG, PNG; TIFF excluded because Pillow transposes the grid itself) and save/re-open "
                "are covered by the bounded C15.native_images job only (never counted as proved). Image._pil_props is under contract with the "
                "Pillow image as an external ghost (an attribute the contract does not list makes the contract unsupported, not refuted).",
    },
    {
        "property_id": "C19",
        "technique": "contract-based deductive verification (pyvc over the real PackURI members on structured symbolic paths; assumed posixpath contracts; z3 strings)",
        "category": "proof",
        "text": "Part names are '/'-joined symbolic segments (z3 strings: non-empty, no '/'), the file name in six shapes (stem.ext, "
                "stem<n>.ext, stem<n>rest.ext, a.b.ext, extension-less, [bracketed].ext), directory depth enumerated 0..4 (the "
                "property's bound). The real baseURI/filename/ext/idx/membername/rels_uri/__new__/relative_ref/from_rel_ref run on "
                "them; obligations: each member equals the OPC definition, '/' pseudo-name, rejection of names without a leading "
                "slash (all strings), lemma L19 from_rel_ref(dir P, relative_ref(Q, dir P)) == Q for all 25 depth pairs with "
                "symbolic segments (one path per length of common prefix), dot-segment and root-absolute references resolve as "
                "RFC 3986.",
        "note": "Assumed: posixpath.split/splitext/join/normpath/abspath/relpath as contracts on structured paths (pyvc/pathmodel.py) "
                "and the file-name regex on letter/digit stems; both probed natively against the real posixpath/PackURI on all names "
                "over a 9-segment alphabet up to depth 3 (C19.posixpath_probe, bounded, never counted as proved). from_rel_ref is also "
                "proved for root-absolute references that are not in normal form ('/abs/../t', '/abs/./t', '/abs//t', '/../t').",
    },
    {
        "property_id": "C14",
        "technique": "contract-based deductive verification (pyvc over the real merge/split/TcRange/new_tbl on an unbounded symbolic grid with ghost region map; z3 E-matching)",
        "category": "proof",
        "text": "Grid view: gridSpan/rowSpan/hMerge/vMerge as functions of (row, col) over an unbounded R x C table plus a ghost region "
                "map; WF = every cell lies in exactly one rectangular region inside the grid and carries the attributes merge writes "
                "for its position. Obligations from the real sources: TcRange._extents normalises all corner orders (with "
                "_left/_right/_top/_bottom/dimensions), contains_merged_cell iff some cell of the range is merged, "
                "merge: WF and no overlap => WF', origin reports the span, the others are spanned, outside untouched; overlap or "
                "other table => ValueError and nothing changes; split on an origin restores independent cells on exactly its region "
                "and keeps WF, otherwise ValueError and no change; is_merge_origin/is_spanned characterised in WF tables; new_tbl: "
                "rows x cols cells, widths/heights sum to the request (three nested loop invariants), ZeroDivisionError iff an empty "
                "dimension; frame size == sum after notify_*.",
        "note": "Assumed: TcRange's five cell iterators yield exactly their rectangle (their nested generators over lxml lists are "
                "checked natively); loops over cell sets use the independent-iterations rule (body explored for a generic cell, "
                "writes to that cell only). Text migration into the origin cell and the whole property on all tables <= 3x3/4x4 with "
                "merge/split sequences of depth 2/3 are covered by the bounded C14.native_tables job (never counted as proved).",
    },
    {
        "property_id": "C05",
        "technique": "contract-based verification: qualifier contracts (escaped-for-context) checked by symbolic execution of the real template code (pyvc), sinks scanned with an XML lexical automaton",
        "category": "proof",
        "text": "Caller strings enter as opaque atoms without qualifier; saxutils.escape (assumed) yields atoms qualified "
                "escaped(& < > + given entities). Every template constructor (new_pic, new_ph_pic, new_video_pic, new_*_sp, new_cxnSp, "
                "new_grpSp, new_*_graphicFrame, new_chart), the shape-tree callers that build shape names, AutoShapeType.basename "
                "(ground over 182 entries), ChartXmlWriter(...).xml for all 73 chart types x data shapes and every series-writer "
                "element builder used by replace_data are executed symbolically from their real source (%-formatting, str.format, "
                "f-strings, nsdecls, helper properties are just code); at the sink (parse_xml / chart XML text) each caller atom must "
                "carry the qualifier of its lexical context (& < in content, plus the delimiting quote in an attribute value).",
        "note": "Assumed: escape()'s contract; lxml .set()/.text= store verbatim (those paths carry no obligation); chart data shapes are "
                "enumerated, strings symbolic. Replays and the bounded C05.native_strings job go through the public API (picture / placeholder picture "
                "/ movie file names, OLE prog id, chart series names, single- and multi-level categories, number formats, "
                "replace_data) with 33 strings: markup characters, entity / character-reference / CDATA / comment / PI look-alikes, "
                "format-spec look-alikes; a contract that leaves the supported subset runs every scenario as its stand-in. F4 (picture "
                "descr, movie name, OLE progId, chart number formats) found by these obligations and repaired by four fix: commits.",
    },
    {
        "property_id": "C09",
        "technique": "contract-based deductive verification (pyvc over the real xmlchemy attribute closures and proxy chains; z3)",
        "category": "proof",
        "text": "Part A: for every OptionalAttribute/RequiredAttribute declaration of every registered element class (one per owner class "
                "and property) the real set_attr_value / get_attr_value closures, specialised by their captured declaration, run on an "
                "abstract element with a ghost attribute map, per input kind (int, real, bool, z3 string, enum member, None): "
                "get(set(e, v)) equals v to the type's quantum, the declared default / None removes the attribute and the getter "
                "reports the default, a rejected value raises TypeError/ValueError and nothing was written (validate before write), "
                "no other attribute is touched. Part B: x/y/cx/cy through _get_xfrm_attr/_set_xfrm_attr with independence of the "
                "other coordinates, Font.size (centipoint quantum, None), Adjustment normalise/denormalise (1e-5), paragraph line "
                "spacing (spcPct leg; None).",
        "note": "Assumed: lxml get/set/attrib are independent per attribute name; the save/re-open leg and the public properties not "
                "in Part B (paragraph/space/margins/line width/slide size/rotation ...) are exercised only natively by the bounded "
                "C09.native_reopen job (22 properties, independence, one save/re-open, None, out-of-domain values) and by the "
                "bounded C09.native_setget_sweep job (about 100 read/write properties of shapes, text, tables, charts, fills, lines "
                "with hand-listed documented domains: every value assigned from two prior values, None where documented, the "
                "object's other independent properties re-read, the final state compared after save/re-open; never counted as "
                "proved; also: pairs of sibling objects -- assign on a, assign on b, re-read a --, a chart gallery rewritten as another producer "
                "writes it (legend placed by hand, schema defaults left implicit), refused values as the first assignment after a reset, links "
                "sharing one address, edits that are neither position nor size on inheriting placeholders). Composite oxml setters that received "
                "contracts of their own: CT_ManualLayout.horz_offset (prior states enumerated), the three hyperlink-removing helpers (release "
                "order). F38, F39 found by the sweep and repaired. IEEE doubles as reals. isinstance(value, Length) on symbolic ints is not expressible (spcPts leg native only).",
    },
    {
        "property_id": "C04",
        "technique": "contract-based deductive verification (pyvc over the real text setters/getters; structured symbolic strings; ghost text body)",
        "category": "proof",
        "text": "A text is seg0 sep1 seg1 ... with the break pattern enumerated (every arrangement of up to three \\n / \\v) and the "
                "segments symbolic (z3 strings, possibly empty). Obligations from the real TextFrame.text, _Paragraph.text, _Run.text, "
                "CT_TextParagraph.append_text/add_r/add_br/text/content_children, CT_RegularTextRun.text/_escape_ctrl_chars, "
                "CT_TextLineBreak.text on a ghost text body: frame level one paragraph per \\n-segment with previous paragraphs removed "
                "and bodyPr untouched; paragraph level one a:br per break and one a:r per non-empty segment holding esc(segment), in "
                "order, a:pPr/a:endParaRPr kept, old content removed; read-back is esc(segments) joined by \\v; run level stores "
                "esc(value); ground character lemma for all ASCII code points (C0 controls except TAB/LF -> _xHHHH_, others kept).",
        "note": "Assumed: str.split / re.split return the maximal separator-free segments; re.sub with the one-character class is the "
                "per-character map; lxml .text stores verbatim. Survival through save/re-open and the whole property on all strings of "
                "length <= 3 (quick) / 5 (thorough) over 9 symbols at the four levels are covered by the bounded C04.native_strings job "
                "only (never counted as proved).",
    },
]

_PENDING = "check not built yet in this session (planned, see DESIGN.md section 5)"
CHECKS.append({
    "property_id": "C13",
    "technique": "contract-based deductive verification (pyvc over the real cloning/lookup/inheritance code; loop invariants with a ghost log and a ghost rank function; z3)",
    "category": "proof",
    "text": "iter_cloneable_placeholders summarised from its real generator body as the filtered subsequence (kept iff type not latent); "
            "clone_placeholder per cloneable type (never raises -- ph_basename total --, one add_placeholder call with equal type/orient/sz/idx, "
            "fresh id and name); the cloning loops of SlideShapes and NotesSlide by a loop invariant over the underlying index: log of added "
            "placeholders = map(clone, filter(cloneable, first k)) with rank function COUNT, ids/names pairwise distinct and new; "
            "LayoutPlaceholders.get / MasterPlaceholders.get first-match invariants; left/top/width/height of every inheriting placeholder "
            "class (own value wins, else base's, else None); the three _base_placeholder lookups (layout map total on all 16 schema types); "
            "Slides.add_slide / PresentationPart.add_slide / SlidePart.new / CT_SlideIdList.add_sldId call-order and argument contracts.",
    "note": "Assumed: add_placeholder / new_placeholder_sp put exactly that shape last in the tree (C05/C10 obligations; probed natively); "
            "C06 allocator contracts applied to 'initial ids + ids added so far'; _add_sldId appends (C10 obligation). Whole-deck behaviour "
            "(every layout of the default deck, 120/1500 random layouts, notes slide, save/reopen) is the bounded C13.native_layouts job, never "
            "counted as proved; its oracle reads the placeholders from the XML (any element carrying p:ph, incl. p:pic / p:graphicFrame), and "
            "_is_member_elm of the three placeholder collections is under contract for each shape element class. "
            "F13a/F13b (sldImg / hdr KeyError) repaired by fix: commits.",
})

CHECKS.append({
    "property_id": "C16",
    "technique": "contract-based deductive verification (pyvc over the real OPC reader/loader functions with ghost packages as z3 arrays; z3) + bounded native irregularity injection",
    "category": "proof",
    "text": "One contract per tolerance / refusal on the function that implements it: _ContentTypeMap.__getitem__ over real CaseInsensitiveDict "
            "objects with ghost storage (override by lower(name), else default by lower(ext), else KeyError, TypeError for non-PackURI); "
            "PackageReader.rels_xml_for and _PackageLoader._xml_rels_for (absent rels item => empty relationships, never KeyError); "
            "_Relationship.from_xml and _Relationships.load_from_xml for any number of relationship elements (iter_valid_rels summarised "
            "from its real generator body: kept iff external or target present, so the parts[...] lookup is dominated by the guard; each kept "
            "item keyed by its own rId with its own type/mode/target); _PhysPkgReader.factory, _ZipPkgReader.__getitem__, api.Presentation and "
            "OpcPackage.main_document_part exception mapping; Package.core_properties creates the default part once; PartFactory._part_cls_for.",
    "note": "Assumed: zipfile/os.path behaviour, PackURI arithmetic as functions of the name (C19), str.lower as an uninterpreted function. "
            "os.path.exists as a total function of the path text (contract on _DirPkgReader.__contains__). Reading through the directory reader "
            "(incl. directories named through a symbolic link, '..', a relative path, a trailing separator) is covered only by the bounded "
            "C16.native_irregular job (every irregularity at every location of two generated decks; never counted as proved).",
})

CHECKS.append({
    "property_id": "C01",
    "technique": "contract-based deductive verification (pyvc over the real OPC walk/writer code: recursive-procedure contracts for the two depth-first walks, loop invariants with ghost sets, dicts and yield logs as z3 arrays; z3) + bounded native round trips",
    "category": "proof",
    "text": "Loader walk _PackageLoader._xml_rels.load_rels verified as a recursive procedure against its own contract (arbitrary source, arbitrary visited set; "
            "recursive calls taken at the contract with the precondition checked at the call): keys of xml_rels = visited names, contain the root, closed under "
            "internal relationships (completeness), all reached from the root (soundness). OpcPackage.iter_rels.walk_rels likewise as a recursive generator with a "
            "ghost yield log: every relationship of the package and of every visited part yielded exactly once, every internal target visited. iter_parts: every "
            "internal target yielded exactly once. Writer: content-type lemma over _ContentTypesItem._defaults_and_overrides (reader lookup of what is written gives "
            "each part its own type, any number of parts), _write_parts (blob under own name, rels item iff relationships, nothing else, in order), _write and the "
            "two fixed streams. Relationship reading is C16's load_from_xml contract.",
    "note": "Assumed: PackURI arithmetic as functions (C19), str.lower uninterpreted+idempotent, part names distinct case-insensitively, zipfile/lxml. "
            "Termination of the walks not proved. sorted()-based emission in _ContentTypesItem._xml and _Relationships.xml, payload bytes, XML equivalence and "
            "second-save identity are covered by the bounded C01.native_roundtrip job only (150/2500 random packages; never counted as proved). "
            "F5 (two .bin parts with different default content types) repaired by a fix: commit.",
})

CHECKS.append({
    "property_id": "C02",
    "technique": "contract-based deductive verification (pyvc: per-function preservation of the package invariant CLOSED over ghost relationship stores as z3 arrays; cache-validity obligation by symbolic execution of the real lazy properties; z3) + bounded native histories",
    "category": "proof",
    "text": "CLOSED(part): every r:id referenced in the XML is a relationship key, keys unique, internal targets are part objects, what is serialised for a relationship follows the "
            "target's current name. Contracts: _Relationships._get_matching (first match by mode and target, loop invariant), get_or_add / get_or_add_ext_rel (reuse => collection unchanged; "
            "else one relationship under the fresh key, other keys untouched), relate_to, related_part/target_ref (KeyError only for unknown ids), XmlPart.drop_rel (removed iff fewer than two "
            "r:id references -- counting axiom of len over the real comprehension), run hyperlink / click-action hyperlink / slide-jump setters (set, change, clear preserve CLOSED; rId obtained "
            "before it is written), creators (_MoviePicElementCreator, _OleObjectElementCreator, add_picture, add_chart, SlidePart part-level creators, ChartWorkbook.xlsx_part: the rId written is "
            "the rId the part returned), SlideLayouts.remove (refusal changes nothing; element removed then relationship dropped), _Relationship.target_ref/target_partname after Part.partname.fset "
            "(cache validity), Part.content_type write-once (static scan + symbolic read).",
    "note": "Assumed: C06 allocator contracts (fresh rId, part names), lxml xpath contract for //@r:id, Part equality is identity. Closure over all interleavings is by induction over the "
            "per-function contracts; functions without a contract and equality of the re-opened object graph are covered by the bounded C02.native_histories job only (80/1200 random histories over "
            "14 operation kinds from the default template and from decks with out-of-order / gap-named slide parts, relationship ids in other spellings, parts named like user files; every "
            "other save goes into the previous buffer; the content-types item is part of the closure check; never counted as proved). F10 (stale cached relationship targets after rename) repaired "
            "by a fix: commit.",
})

CHECKS.append({
    "property_id": "C12",
    "technique": "contract-based verification of frame conditions (effect inference over the real source of every public read accessor, callee effects composed modularly, receivers typed from a table observed on the corpus decks) + bounded run-time frame check",
    "category": "proof",
    "text": "Each public read accessor (properties, lazy properties, __iter__/__len__/__getitem__ of the proxy classes; ~750 class/accessor pairs) carries the frame clause "
            "the property grants: effect <= adds-empty-container, or mutates only when its docstring (or the property's own list) documents creation. The clause is inferred from the "
            "AST of the real function and of everything it calls (xmlchemy-generated members classified from the generator closure; hand-written creators evaluated to see whether they "
            "build attributes or text; lxml members by a reader/writer table). A refuted clause is replayed natively: the accessor alone on fresh copies of the decks, with the child a "
            "get_or_add would create removed first when the corpus has no witness.",
    "note": "Accessors whose receivers cannot be typed are unresolved and covered only by the bounded C12.native_traversal job (every accessor on every reachable object of 15/61 decks, "
            "isolated replays, traverse-save-traverse-save against a straight open-save, a save before the first access to .slides, look-up methods called with own / foreign / absent "
            "arguments, the guarded read idiom `if x.has_y: x.y`, the chart's embedded workbook, declared content types and the content-types "
            "item compared entry for entry; never counted as proved). Look-up methods (index, get, in, []) are analysed statically as calls; package-level writers (relate_to, drop_rel, ...) by a name table. 14 known findings F27/F28 (chart data-label / point accessors and "
            "pattern-fill colours create non-empty content without saying so); DataLabels.show_* repaired by a fix: commit.",
})

CHECKS.append({
    "property_id": "C03",
    "technique": "contract-based deductive verification by composition (C10 child order per declaration + C11 attribute lexical spaces + C05 markup safety) plus, here, template-constructor contracts: symbolic execution of the real constructor, ground skeleton validated by libxml2 against the ISO/IEC 29500-4 XSDs, integer holes proved (z3) to lie inside the XSD simple type of the attribute they occupy; bounded validated histories",
    "category": "proof",
    "text": "Every shape-element constructor (new_pic, new_ph_pic, new_video_pic, new_autoshape_sp, new_textbox_sp, new_freeform_sp, new_placeholder_sp for every placeholder type/orient/size, "
            "new_cxnSp, new_grpSp, new_chart/table/ole_object_graphicFrame): per path of the real source the template reaches the parser once and its holes are integer renderings; the "
            "real constructor run on the path's model gives an element that is schema-valid inside a slide; each integer argument's stated domain lies inside the simple type of every "
            "attribute its value lands in (ST_Coordinate, ST_PositiveCoordinate, ST_DrawingElementId, ST_PositiveCoordinate32 ...). Skeleton validity + hole typing = validity for all arguments.",
    "note": "Mutators through declared members are C10/C11 obligations (not repeated here). Hand-written composite mutators, chart writers and whole histories are covered by the bounded "
            "C03.native_histories job (17 operation kinds incl. rejected calls, from the default template, a template saturated with optional p:extLst children, and corpus decks; every part validated "
            "with libxml2 XMLSchema after every step; never counted as proved). Argument domains are stated assumptions (python-pptx does not range-check lengths). "
            "F30 (negative c:axId), F31 (c:smooth in radar series), F25b (add_movie after p:extLst) repaired by fix: commits.",
})

CHECKS.append({
    "property_id": "C07",
    "technique": "contract-based deductive verification (pyvc: loop invariant over a ghost text accumulator for the c:pt writer, generator summarisation for the values reader, rewriter counting and idx/order freshness; z3) + bounded native chart round trips validated against dml-chart.xsd",
    "category": "proof",
    "text": "_BaseSeriesXmlWriter.pt_xml for any number of values with any of them missing: the text is the c:ptCount piece carrying len(values) followed by exactly one c:pt piece per non-None value, in order, "
            "with that value's own index and value (rank function RANK as ghost). series.values: exactly ptCount entries, entry k the value of the c:pt with idx k, None when absent; CT_NumDataSource.pt_v / "
            "ptCount_val over the xpath contract. Rewriter: _adjust_ser_count adds/trims exactly the difference; _add_cloned_sers gives each clone the idx and order offered by next_idx / next_order at that "
            "moment and chains clones after their source; CT_PlotArea.next_idx / next_order exceed every existing value (so ids stay unique).",
    "note": "Composition of writer and reader contracts assumes the XML text <-> element correspondence (lxml). The chart templates of the 29 writable types, categories of every shape (strings, numbers, dates "
            "either side of 1900-03-01, 2- and ragged 3-level), missing values, replace_data with a different shape, formatting of surviving series, corpus charts: bounded C07.native_charts job only "
            "(never counted as proved). _add_cloned_sers is unrolled for count <= 3. Known finding F33: PIE / PIE_EXPLODED write only the first series supplied. F32 (blank category label read as 'None') repaired by a fix: commit; "
            "F30/F31 (axis ids, radar c:smooth) are recorded under C03.",
})

NOT_APPLICABLE = [
    {"property_id": p, "reason": _PENDING}
    for p in [
              ]
]

"""Per-property MANIFEST entries (edited by hand as checks are built)."""

CHECKS = [
    {
        "property_id": "C17",
        "technique": "contract-based deductive verification (pyvc VC generation over real source, z3/cvc5)",
        "text": "Every path of the real connector endpoint setters/getters and of _add_cxnSp is symbolically executed from the "
                "live source and each postcondition (moved endpoint == value, other endpoint fixed, extents >= 0, frame on the "
                "other axis) is discharged by z3 for all integers; group-extent and freeform-bound contracts likewise. "
                "Unbounded in the inputs, so sequences of assignments are covered by induction over the per-call contract.",
        "note": "Trusted: pyvc's encoding of the Python subset (ints exact, floats as reals), z3/cvc5 unsat answers, xfrm "
                "attributes as independent abstract fields (C09 obligation). Termination not proved.",
    },
]

_PENDING = "check not built yet in this session (planned, see DESIGN.md section 5)"
NOT_APPLICABLE = [
    {"property_id": p, "reason": _PENDING}
    for p in ["C01", "C02", "C03", "C04", "C05", "C06", "C07", "C08", "C09", "C10", "C11", "C12", "C13", "C14", "C15", "C16",
              "C18", "C19", "C20"]
]

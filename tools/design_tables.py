#!/usr/bin/env python3
"""Regenerate the generated tables of DESIGN.md (between the BEGIN/END GENERATED markers) from evidence/, known_findings.json, seeded/."""
import glob, json, os, re, sys
root = os.path.dirname(os.path.dirname(os.path.abspath(__file__)))
out = []
out.append("| property | contracts | obligations discharged | bounded jobs (not counted) | known findings | evidence level | quick wall |")
out.append("|---|---|---|---|---|---|---|")
for f in sorted(glob.glob(os.path.join(root, "evidence", "C*.json"))):
    e = json.load(open(f))
    cov = e.get("coverage", {})
    bounded = ", ".join(sorted({b.get("name", "?") for b in cov.get("bounded_checks", [])})) or "-"
    out.append("| %s | %s (%s functions) | %s / %s | %s | %s | %s | %ss |" % (
        e.get("property_id"), len(cov.get("contracts", [])), cov.get("n_functions_under_contract", "?"), cov.get("discharged"), cov.get("obligations"), bounded,
        len(cov.get("known_findings_reported", [])), e.get("level"), round(e.get("wall_s", 0), 1)))
tab1 = "\n".join(out)
kf = json.load(open(os.path.join(root, "known_findings.json")))
rows = {}
for f in kf["findings"]:
    k = (f["id"], f["property"], f["status"], f.get("commit", ""))
    rows.setdefault(k, []).append(f)
out = ["| id | property | status | commit | what (first entry) | entries |", "|---|---|---|---|---|---|"]
def keyf(k):
    m = re.match(r"F(\d+)(\w*)", k[0]); return (int(m.group(1)) if m else 999, m.group(2) if m else "", k[1])
for k in sorted(rows, key=keyf):
    fs = rows[k]
    out.append("| %s | %s | %s | %s | %s | %d |" % (k[0], k[1], k[2], k[3][:8], fs[0]["what"].replace("|", "/").replace("\n", " ")[:230], len(fs)))
tab2 = "\n".join(out)
out = ["| seed | property | change (first line of the author's notes) | detected by | first violated obligation |", "|---|---|---|---|---|"]
for d in sorted(glob.glob(os.path.join(root, "seeded", "*"))):
    mp = os.path.join(d, "meta.json")
    if not os.path.exists(mp):
        continue
    m = json.load(open(mp))
    notes = ""
    np_ = os.path.join(d, "notes.txt")
    if os.path.exists(np_):
        lines = [l.strip() for l in open(np_, errors="replace").read().splitlines() if l.strip() and not set(l.strip()) <= set("=-#* ")]
        notes = " ".join(lines[:2])[:170]
    first = ""
    for p, v in m.get("checks", {}).items():
        if v.get("violations"):
            first = v["violations"][0][:110]
            break
    out.append("| %s | %s | %s | %s | %s |" % (m["seed"], m["property"], notes.replace("|", "/"), ", ".join(m.get("detected_by", [])) or "**missed**", first.replace("|", "/")))
tab3 = "\n".join(out)
text = {"STATUS": tab1, "FINDINGS": tab2, "SEEDS": tab3}
p = os.path.join(root, "DESIGN.md")
s = open(p).read()
for k, v in text.items():
    a, b = "<!-- BEGIN GENERATED %s -->" % k, "<!-- END GENERATED %s -->" % k
    if a in s and b in s:
        s = s[:s.index(a) + len(a)] + "\n" + v + "\n" + s[s.index(b):]
    else:
        print("marker missing for", k)
open(p, "w").write(s)
print("DESIGN.md tables regenerated")

#!/usr/bin/env python3
"""Deliberate (never run by a check) regeneration helper for known_findings.json: prints the entries
for the currently refuted + natively confirmed obligations of a property so that they can be
reviewed and pasted.  Usage: .venv/bin/python tools/mk_known.py C11"""
import json, subprocess, sys, os, glob
prop = sys.argv[1]
root = os.path.dirname(os.path.dirname(os.path.abspath(__file__)))
subprocess.run([os.path.join(root, "check"), prop, "--no-evidence"], capture_output=True)
out = []
for f in sorted(glob.glob(os.path.join(root, "replays", prop, "*.json"))):
    d = json.load(open(f))
    rp = d.get("replay") or {}
    base = d["obligation"]
    import re
    base = re.sub(r"\.p\d+$", "", base)
    out.append({"property": prop, "status": "known", "obligation": base, "witness_class": rp.get("witness_class"),
                "confirmed": rp.get("confirmed"), "what": str(rp.get("detail"))[:300]})
print(json.dumps(out, indent=1))

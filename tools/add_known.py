#!/usr/bin/env python3
"""Deliberate maintenance of known_findings.json (never run by a check).
  add_known.py known <PROP> <ID> "<what>"        adds every currently refuted+confirmed obligation of PROP not yet listed
  add_known.py fixed <PROP> <ID> <commit> "<obligation>" "<what>"
"""
import json, os, re, subprocess, sys, glob, shutil
root = os.path.dirname(os.path.dirname(os.path.abspath(__file__)))
kf = os.path.join(root, "known_findings.json")
doc = json.load(open(kf))
mode = sys.argv[1]
if mode == "known":
    prop, fid, what = sys.argv[2:5]
    pat = sys.argv[5] if len(sys.argv) > 5 else ""
    shutil.rmtree(os.path.join(root, "replays", prop), ignore_errors=True)
    subprocess.run([os.path.join(root, "check"), prop, "--no-evidence"], capture_output=True)
    have = {(f["obligation"], f.get("witness_class")) for f in doc["findings"]}
    n = 0
    for f in sorted(glob.glob(os.path.join(root, "replays", prop, "*.json"))):
        d = json.load(open(f))
        rp = d.get("replay") or {}
        base = re.sub(r"\.p\d+$", "", d["obligation"])
        if pat and pat not in base:
            continue
        if not rp.get("confirmed"):
            print("skip (not confirmed natively):", base)
            continue
        key = (base, rp.get("witness_class"))
        if key in have:
            continue
        have.add(key)
        doc["findings"].append({"id": fid, "property": prop, "status": "known", "obligation": base, "witness_class": rp.get("witness_class"),
                                "what": "%s -- %s" % (what, str(rp.get("detail"))[:300])})
        n += 1
    print("added", n)
else:
    prop, fid, commit, obl, what = sys.argv[2:7]
    doc["findings"].append({"id": fid, "property": prop, "status": "fixed", "commit": commit, "obligation": obl, "what": what})
    doc["fixed_log"].append("fixed: property=%s %s %s" % (prop, commit, what))
json.dump(doc, open(kf, "w"), indent=1, ensure_ascii=False)

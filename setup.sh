#!/bin/sh
# Build the overlay venv (python 3.12 = /venv's interpreter + z3/cvc5 from the offline wheelhouse).
# Idempotent; everything comes from files on disk.
set -e
cd "$(dirname "$0")"
V=.venv
if [ ! -x $V/bin/python ] || ! $V/bin/python -c "import z3, cvc5, lxml, pptx, jsonschema" 2>/dev/null; then
  rm -rf $V
  /venv/bin/python -m venv --without-pip $V
  SP=$($V/bin/python -c "import sysconfig;print(sysconfig.get_paths()['purelib'])")
  echo "import site; site.addsitedir('/venv/lib/python3.12/site-packages')" > $SP/_repo_venv.pth
  PIP_NO_INDEX=1 /venv/bin/python -m pip --python $V/bin/python install -q --no-index \
      --find-links /opt/veriftools/wheels z3-solver cvc5 jsonschema >/dev/null
fi
$V/bin/python -c "import z3, cvc5, lxml, pptx, jsonschema; print('setup ok: z3', z3.get_version_string(), 'pptx', pptx.__file__)"

"""Lifting real objects into the symbolic executor.

`lift(obj)` turns an instance of a python-pptx class (built natively by the real constructors, but
holding symbolic leaves such as tainted strings) into an `SObj` with the same class and the same
instance attributes, recursively, so that every later attribute access, property and method call on it
is *symbolically executed from the real source* instead of being run natively."""
from __future__ import annotations

import enum

from .engine import SObj


def _is_pptx_instance(v):
    t = type(v)
    mod = getattr(t, "__module__", "") or ""
    if not mod.startswith("pptx"):
        return False
    if isinstance(v, (enum.Enum, type, str, int, float, bytes)):
        return False
    if hasattr(v, "tag") and hasattr(v, "getparent"):  # lxml element
        return False
    return hasattr(v, "__dict__")


def lift(v, memo=None):
    memo = {} if memo is None else memo
    if id(v) in memo:
        return memo[id(v)]
    if isinstance(v, list):
        out = []
        memo[id(v)] = out
        out.extend(lift(x, memo) for x in v)
        return out
    if isinstance(v, tuple):
        return tuple(lift(x, memo) for x in v)
    if isinstance(v, dict):
        out = {}
        memo[id(v)] = out
        for k, x in v.items():
            out[k] = lift(x, memo)
        return out
    if _is_pptx_instance(v):
        o = SObj(type(v), type(v).__name__)
        memo[id(v)] = o
        for k, x in v.__dict__.items():
            o.fields[k] = lift(x, memo)
        return o
    return v

"""Ghost sets and dicts with symbolic keys (z3 arrays).

`GDict(name, key_of, wrap, unwrap)`: HAS: Array(K, Bool), VAL: Array(K, V).  `key_of(x)` gives the z3 key term of a
Python-level key, `wrap(v)` the z3 value term of a value and `unwrap(term)` the Python-level value of a term.
Created by contracts (fields of ghost objects) or -- when a contract switches the option on -- in place of the
`set()` / `{}` a function under analysis creates for keys that are symbolic."""
from __future__ import annotations

import z3

from .engine import GhostFn, PyRaise, SStr, Unsupported, _as_sstr, is_z3, to_int

_N = [0]


def _fresh(p):
    _N[0] += 1
    return "%s%d" % (p, _N[0])


def str_key(x):
    g = getattr(x, "gkey", None)
    if g is not None and is_z3(g) and g.sort() == z3.StringSort():
        return g
    if isinstance(x, (str, SStr)):
        z = _as_sstr(x).z3()
        if z is None:
            raise Unsupported("string key without z3 form: %r" % (x,))
        return z
    if is_z3(x) and x.sort() == z3.StringSort():
        return x
    raise Unsupported("non-string key %r" % (x,))


def int_key(x):
    k = getattr(x, "gkey", None)
    if k is not None:
        return k
    f = getattr(x, "fields", None)
    if f is not None and "gkey" in f:
        return f["gkey"]
    if is_z3(x):
        return to_int(x)
    raise Unsupported("key %r has no ghost identity" % (x,))


def str_val(v):
    return str_key(v)


def _card(it, sort, arr):
    """len() of a ghost set: an unknown L >= 0 that is 0 exactly when the set is empty (nothing else is assumed)."""
    it.path.assumed.add("len() of a ghost set/dict: L >= 0 and L == 0 iff empty (cardinality otherwise unconstrained)")
    L = it.path.fresh("card", z3.IntSort())
    x = z3.Const(_fresh("cx"), sort)
    it.path.assume(z3.And(L >= 0, (L == 0) == z3.ForAll([x], z3.Not(z3.Select(arr, x)))))
    return L


class GSet:
    __pyvc_symbolic__ = True

    def __init__(self, name="gset", key_of=int_key, sort=None, arr=None):
        self.name = name
        self.key_of = key_of
        self.sort = sort if sort is not None else z3.IntSort()
        self.arr = arr if arr is not None else z3.K(self.sort, z3.BoolVal(False))

    def has(self, k):
        return z3.Select(self.arr, k)

    def sym_contains(self, it, item):
        return self.has(self.key_of(item))

    def add(self, k):
        self.arr = z3.Store(self.arr, k, z3.BoolVal(True))

    def havoc(self, tag):
        self.arr = z3.Array("%s_%s" % (self.name, tag), self.sort, z3.BoolSort())

    def sym_len(self, it):
        return _card(it, self.sort, self.arr)

    def sym_getattr(self, it, name):
        if name == "add":
            return GhostFn(lambda i2, a, k: self.add(self.key_of(a[0])), "set.add")
        raise Unsupported("ghost set: attribute %s" % name)


class GDict:
    __pyvc_symbolic__ = True

    def __init__(self, name="gdict", key_of=str_key, wrap=str_val, unwrap=None, ksort=None, vsort=None, has=None, val=None):
        self.name = name
        self.key_of, self.wrap = key_of, wrap
        self.unwrap = unwrap or (lambda t: SStr([_atom_of(t)]))
        self.ksort = ksort if ksort is not None else z3.StringSort()
        self.vsort = vsort if vsort is not None else z3.StringSort()
        self.HAS = has if has is not None else z3.K(self.ksort, z3.BoolVal(False))
        self.VAL = val if val is not None else z3.Array("%s_val0" % name, self.ksort, self.vsort)
        self.writes = 0
        self.key_obj = None  # term -> Python-level key object (needed to explore comprehensions over the keys)
        self.wrap_out = self.unwrap_out = self.vsort_out = None  # value encoding of dicts derived by comprehension

    @classmethod
    def symbolic(cls, name, **kw):
        d = cls(name, **kw)
        d.HAS = z3.Array("%s_has" % name, d.ksort, z3.BoolSort())
        d.VAL = z3.Array("%s_val" % name, d.ksort, d.vsort)
        return d

    def havoc(self, tag):
        self.HAS = z3.Array("%s_has_%s" % (self.name, tag), self.ksort, z3.BoolSort())
        self.VAL = z3.Array("%s_val_%s" % (self.name, tag), self.ksort, self.vsort)

    def has(self, k):
        return z3.Select(self.HAS, k)

    def val(self, k):
        return z3.Select(self.VAL, k)

    def sym_contains(self, it, item):
        return self.has(self.key_of(item))

    def sym_getitem(self, it, key):
        k = self.key_of(key)
        if not it.path.branch(self.has(k)):
            raise PyRaise(KeyError, (key,))
        return self.unwrap(self.val(k))

    def sym_setitem(self, it, key, v):
        k = self.key_of(key)
        self.HAS = z3.Store(self.HAS, k, z3.BoolVal(True))
        self.VAL = z3.Store(self.VAL, k, self.wrap(v))
        self.writes += 1

    def sym_truth(self, it):
        return _card(it, self.ksort, self.HAS) > 0

    def sym_len(self, it):
        return _card(it, self.ksort, self.HAS)

    def sym_getattr(self, it, name):
        if name == "get":
            def get(i2, a, kw):
                k = self.key_of(a[0])
                if i2.path.branch(self.has(k)):
                    return self.unwrap(self.val(k))
                return a[1] if len(a) > 1 else kw.get("default")

            return GhostFn(get, "dict.get")
        if name == "clear":
            def clear(i2, a, kw):
                self.HAS = z3.K(self.ksort, z3.BoolVal(False))

            return GhostFn(clear, "dict.clear")
        if name == "pop":
            def pop(i2, a, kw):
                k = self.key_of(a[0])
                if not i2.path.branch(self.has(k)):
                    if len(a) > 1:
                        return a[1]
                    raise PyRaise(KeyError, (a[0],))
                v = self.unwrap(self.val(k))
                self.HAS = z3.Store(self.HAS, k, z3.BoolVal(False))
                return v

            return GhostFn(pop, "dict.pop")
        if name == "items":
            return GhostFn(lambda i2, a, kw: GItems(self), "dict.items")
        if name == "keys":
            return GhostFn(lambda i2, a, kw: GKeys(self, []), "dict.keys")
        raise Unsupported("ghost dict: attribute %s" % name)


class GItems:
    """`d.items()` of a ghost dict: iterated only under the independent-iterations rule (foreach_items)"""

    __pyvc_symbolic__ = True

    def __init__(self, src):
        self.src = src


def foreach_items(label):
    """Loop rule for `for k, v in <ghost dict>.items(): body` whose iterations are independent (the body reads the pair and
    writes only state owned by that pair): the body is explored once for a generic key present in the dict; the path after the
    loop continues with the dict unchanged.  Whatever the body must guarantee is obliged on the generic-key leg."""

    def spec(it, node, frame, seq):
        from .engine import PathDone

        if not isinstance(seq, GItems):
            raise Unsupported("foreach_items over %r" % (seq,))
        d = seq.src
        if d.key_obj is None:
            raise Unsupported("ghost dict without a key-object builder")
        path = it.path
        it.path.assumed.add("%s: iterations independent (each reads its own (key, value) pair and writes only state owned by that value)" % label)
        if path.fork_free(2) == 0:
            g = path.fresh("item_key", d.ksort)
            path.assume(d.has(g))
            path.ghost["generic_item_key"] = g
            it.assign(node.target, (d.key_obj(g), d.unwrap(d.val(g))), frame)
            it.exec_block(node.body, frame)
            path.ghost["foreach_done"] = True
            from .engine import _Return

            raise _Return(None)  # this leg ends here: the contract inspects what the body did for the generic key

    return spec


def _atom_of(t):
    from .engine import Atom

    return Atom("val(%s)" % _fresh("v"), zs=t)


class YLog:
    """Ghost for the values a generator yields under a loop contract: LOG[0..cnt) (keys of the yielded objects, in order)
    and MEM = the set of keys yielded so far (kept in step with LOG by construction)."""

    __pyvc_symbolic__ = True

    def __init__(self, name="yielded", key_of=int_key, sort=None):
        self.name, self.key_of = name, key_of
        self.sort = sort if sort is not None else z3.IntSort()
        self.cnt = z3.IntVal(0)
        self.LOG = z3.Array("%s_log0" % name, z3.IntSort(), self.sort)
        self.MEM = z3.K(self.sort, z3.BoolVal(False))
        self.objs = []

    def append(self, v):
        k = self.key_of(v)
        self.LOG = z3.Store(self.LOG, self.cnt, k)
        self.MEM = z3.Store(self.MEM, k, z3.BoolVal(True))
        self.cnt = self.cnt + 1
        self.objs.append(v)

    def extend(self, items):
        for x in items:
            self.append(x)

    def havoc(self, tag):
        self.cnt = z3.Int("%s_cnt_%s" % (self.name, tag))
        self.LOG = z3.Array("%s_log_%s" % (self.name, tag), z3.IntSort(), self.sort)
        self.MEM = z3.Array("%s_mem_%s" % (self.name, tag), self.sort, z3.BoolSort())

    def __bool__(self):
        return False


class GText:
    """Ghost for a string accumulated by a loop (`xml += piece`): a fixed prefix followed by `cnt` appended pieces.  Every
    appended piece is a structured string literal/hole/literal/...; all pieces must have the same literal skeleton (`shape`);
    hole p of the i-th piece is HOLE[p][i].  Immutable: `+` gives a new GText."""

    __pyvc_symbolic__ = True

    def __init__(self, prefix, tag, cnt, shape=None, holes=None):
        self.prefix, self.tag, self.cnt, self.shape = prefix, tag, cnt, shape
        self.holes = holes or {}

    @classmethod
    def havocked(cls, v, tag):
        prefix = v.prefix if isinstance(v, GText) else v
        g = cls(prefix, tag, z3.Int("txt_cnt_%s" % tag))
        if isinstance(v, GText):
            g.shape = v.shape
        return g

    @classmethod
    def of(cls, v):
        """view of a plain (structured) string as an accumulator with no appended piece"""
        return v if isinstance(v, GText) else cls(v, "init", z3.IntVal(0))

    def hole(self, p, sort):
        key = (p, str(sort))
        if key not in self.holes:
            self.holes[key] = z3.Array("txt_hole%d_%s_%s" % (p, sort, self.tag), z3.IntSort(), sort)
        return self.holes[key]

    def sym_truth(self, it):
        return True

    def sym_binop(self, it, opn, other, reflected):
        from .engine import FmtInt, FmtReal, Atom

        if opn != "Add" or reflected or not isinstance(other, (str, SStr)):
            raise Unsupported("operator %s on an accumulated text" % opn)
        parts = _as_sstr(other).parts
        lits = tuple(p for p in parts if isinstance(p, str))
        hs = [p for p in parts if not isinstance(p, str)]
        skeleton = tuple("\x00" if not isinstance(p, str) else p for p in parts)
        if self.shape is not None and self.shape != skeleton:
            raise Unsupported("pieces of different shapes appended to one accumulated text")
        g = GText(self.prefix, self.tag, self.cnt + 1, skeleton, dict(self.holes))
        for p, h in enumerate(hs):
            if isinstance(h, FmtInt):
                term, sort = to_int(h.term), z3.IntSort()
            elif isinstance(h, FmtReal):
                term, sort = h.term, z3.RealSort()
            elif isinstance(h, Atom) and h.zs is not None:
                term, sort = h.zs, z3.StringSort()
            else:
                raise Unsupported("hole %r of an appended piece has no term" % (h,))
            key = (p, str(sort))
            arr = self.hole(p, sort)
            g.holes[key] = z3.Store(arr, self.cnt, term)
        return g


class GKeys:
    """lazy `(k for k in <ghost dict> if cond(k))`: the keys of a ghost dict that pass the filters (identity element only)"""

    __pyvc_symbolic__ = True

    def __init__(self, src, filters):
        self.src, self.filters = src, filters  # filters: list of (target node, [if nodes], frame)


def _gdict_lazy_filter(self, it, node, gen, frame):
    import ast

    if not (isinstance(node.elt, ast.Name) and isinstance(gen.target, ast.Name) and node.elt.id == gen.target.id):
        raise Unsupported("generator over a ghost dict that maps its keys")
    return GKeys(self, [(gen.target, list(gen.ifs), frame)])


def _gdict_iter(self, it):
    return GKeys(self, [])


GDict.sym_lazy_filter = _gdict_lazy_filter


def dict_from_pairs(it, d, src):
    """dict(<lazy sequence of (key, value) pairs>) stored into the empty ghost dict `d`: a key is present iff some pair
    carries it, and its value is that of the LAST such pair (CPython: later pairs overwrite; an overridden __setitem__
    is not consulted).  The pair expression is evaluated once, for a generic index; LAST is a Skolem function."""
    f = getattr(src, "filtered", src)
    if type(f).__name__ != "SFiltered" or (getattr(f, "elt_it", None) is None and f.elt is None):
        raise Unsupported("dict() of %r" % (src,))
    i0 = z3.Int(_fresh("pi"))
    npend, npc = len(it.path.pending), len(it.path.pc)
    pair = f.elt_it(it, i0) if getattr(f, "elt_it", None) is not None else f.elt(i0)
    if len(it.path.pending) != npend or len(it.path.pc) != npc:
        raise Unsupported("dict(): the (key, value) expression branches")
    if not (isinstance(pair, tuple) and len(pair) == 2):
        raise Unsupported("dict(): elements are not pairs")
    tk, tv = d.key_of(pair[0]), d.wrap(pair[1])
    n, cond = f.n, f.cond
    key = lambda j: z3.substitute(tk, (i0, j))
    val = lambda j: z3.substitute(tv, (i0, j))
    kept = lambda j: z3.And(0 <= j, j < n, cond(j))
    LAST = z3.Function(_fresh("last_" + d.name), d.ksort, z3.IntSort())
    HAS = z3.Array(_fresh(d.name + "_has"), d.ksort, z3.BoolSort())
    VAL = z3.Array(_fresh(d.name + "_val"), d.ksort, d.vsort)
    i = z3.Int(_fresh("pj"))
    k = z3.Const(_fresh("pk"), d.ksort)
    it.path.assume(z3.ForAll([k], z3.Select(HAS, k) == z3.And(kept(LAST(k)), key(LAST(k)) == k)))
    it.path.assume(z3.ForAll([i], z3.Implies(kept(i), z3.And(z3.Select(HAS, key(i)), LAST(key(i)) >= i))))
    it.path.assume(z3.ForAll([k], z3.Implies(z3.Select(HAS, k), z3.Select(VAL, k) == val(LAST(k)))))
    d.HAS, d.VAL = HAS, VAL
    d.pairs = {"n": n, "kept": kept, "key": key, "val": val, "last": LAST}
    return d


def dictcomp(it, node, frame, src):
    """{K: V for k in <keys of a ghost dict> if C}: explored once for a generic key.  K must be the key itself.  The result is
    a ghost dict with HAS(k) = source has k and every filter holds, VAL(k) = V evaluated at k.  If evaluating the filters or V
    can raise for some key, the current path forks: one leg raises (with a witness key), the other assumes no key does."""
    import ast

    from .engine import Frame, Infeasible, Path

    gen = node.generators[0]
    if isinstance(src, GDict):
        base, filters = src, []
    else:
        base, filters = src.src, list(src.filters)
    if base.key_obj is None:
        raise Unsupported("ghost dict without a key-object builder")
    if not (isinstance(node.key, ast.Name) and isinstance(gen.target, ast.Name) and node.key.id == gen.target.id):
        raise Unsupported("dict comprehension over a ghost dict that maps its keys")
    g = z3.Const(_fresh("gk"), base.ksort)
    outer = it.path
    results = []
    work = [[]]
    while work:
        prefix = work.pop()
        p = Path(prefix, outer.timeout)
        p.pc = list(outer.pc) + [base.has(g)]
        p.n = outer.n + 900 * (len(results) + 1)
        p.assumed = outer.assumed
        start = len(p.pc)
        sub = type(it)(p, loop_specs=it.loop_specs, summaries=it.summaries)
        sub.depth, sub.active = max(1, it.depth), list(getattr(it, 'active', []))
        try:
            passed = True
            kobj = base.key_obj(g)
            for tgt, ifs, fr0 in filters:
                fr = Frame(fr0.fn, {}, fr0.node, fr0.qn)
                fr.globals, fr.cells, fr.parent = fr0.globals, fr0.cells, fr0
                sub.assign(tgt, kobj, fr)
                for cnd in ifs:
                    if not sub.truth(sub.eval(cnd, fr)):
                        passed = False
                        break
                if not passed:
                    break
            if passed:
                fr = Frame(frame.fn, {}, frame.node, frame.qn)
                fr.globals, fr.cells, fr.parent = frame.globals, frame.cells, frame
                sub.assign(gen.target, kobj, fr)
                for cnd in gen.ifs:
                    if not sub.truth(sub.eval(cnd, fr)):
                        passed = False
                        break
            if not passed:
                results.append((p.pc[start:], "skip", None))
            else:
                v = sub.eval(node.value, fr)
                results.append((p.pc[start:], "value", v))
        except Infeasible:
            pass
        except PyRaise as e:
            results.append((p.pc[start:], "raise", e))
        work.extend(p.pending)
        if len(results) > 32:
            raise Unsupported("dict comprehension value has more than 32 paths")
    conj = lambda cs: z3.And(*cs) if cs else z3.BoolVal(True)
    raises = [(conj(cs), e) for cs, k, e in results if k == "raise"]
    if raises:
        leg = outer.fork_free(len(raises) + 1)
        if leg < len(raises):
            guard, e = raises[leg]
            w = outer.fresh("bad_key", base.ksort)
            outer.assume(z3.And(base.has(w), z3.substitute(guard, (g, w))))
            outer.ghost.setdefault("dictcomp_raise_witness", []).append(w)
            raise PyRaise(e.exc_cls, e.exc_args)
        q = z3.Const(_fresh("gq"), base.ksort)
        for guard, e in raises:
            outer.assume(z3.ForAll([q], z3.Implies(base.has(q), z3.Not(z3.substitute(guard, (g, q))))))
    vals = [(conj(cs), v) for cs, k, v in results if k == "value"]
    res = GDict("dictcomp", key_of=base.key_of, wrap=base.wrap_out or base.wrap, unwrap=base.unwrap_out or base.unwrap, ksort=base.ksort, vsort=base.vsort_out if base.vsort_out is not None else base.vsort)
    res.key_obj = base.key_obj
    has_body = z3.And(base.has(g), z3.Or(*[c for c, _ in vals]) if vals else z3.BoolVal(False))
    res.HAS = z3.Lambda([g], has_body)
    if vals:
        wrap = base.wrap_out or base.wrap
        body = wrap(vals[-1][1])
        for cnd, v in reversed(vals[:-1]):
            body = z3.If(cnd, wrap(v), body)
        res.VAL = z3.Lambda([g], body)
    res.generic = g
    outer.ghost.setdefault("dictcomps", []).append(res)
    return res

"""Oracle extraction from the XSD files shipped in /repo/spec (DESIGN.md 1.3, 5/C10, 5/C11).

Parses the transitional schemas (ISO/IEC 29500-4) and the OPC schemas (29500-2) into
* simple types with resolved facets (range, enumeration, pattern, length, union members),
* complex types with their attribute declarations and a *flattened* content model: the ordered
  list of slots of the type's top-level sequence, each slot being one element or one choice group,
* the element -> type relation along paths from each part's root element.
Nothing here is written by hand from the standard; the files are read on every run.
"""
from __future__ import annotations

import functools
import os

from lxml import etree

XS = "{http://www.w3.org/2001/XMLSchema}"
SPEC = "/repo/spec"
FILES = [
    "ISO-IEC-29500-4/xsd/pml.xsd", "ISO-IEC-29500-4/xsd/dml-main.xsd", "ISO-IEC-29500-4/xsd/dml-chart.xsd",
    "ISO-IEC-29500-4/xsd/dml-picture.xsd", "ISO-IEC-29500-4/xsd/dml-chartDrawing.xsd",
    "ISO-IEC-29500-4/xsd/dml-diagram.xsd", "ISO-IEC-29500-4/xsd/dml-lockedCanvas.xsd",
    "ISO-IEC-29500-4/xsd/shared-commonSimpleTypes.xsd", "ISO-IEC-29500-4/xsd/shared-relationshipReference.xsd",
    "ISO-IEC-29500-2/opc-xsd/opc-contentTypes.xsd", "ISO-IEC-29500-2/opc-xsd/opc-coreProperties.xsd",
    "ISO-IEC-29500-2/opc-xsd/opc-relationships.xsd",
]
XSD_NS = "http://www.w3.org/2001/XMLSchema"
UNBOUNDED = 10 ** 9

BUILTIN_INT = {
    "integer": (None, None), "int": (-2 ** 31, 2 ** 31 - 1), "long": (-2 ** 63, 2 ** 63 - 1), "short": (-2 ** 15, 2 ** 15 - 1),
    "byte": (-128, 127), "unsignedInt": (0, 2 ** 32 - 1), "unsignedLong": (0, 2 ** 64 - 1), "unsignedShort": (0, 65535),
    "unsignedByte": (0, 255), "nonNegativeInteger": (0, None), "positiveInteger": (1, None),
}
BUILTIN_OTHER = {"decimal", "double", "float", "string", "token", "normalizedString", "NCName", "ID", "boolean", "hexBinary",
                 "anyURI", "dateTime", "base64Binary", "anySimpleType", "language", "Name", "NMTOKEN", "date", "time", "QName"}


class SimpleType:
    def __init__(self, name):
        self.name = name
        self.variety = "atomic"
        self.prim = None  # 'integer' | 'decimal' | 'double' | 'string' | 'token' | 'boolean' | 'hexBinary' | ...
        self.min = None  # (value, inclusive)
        self.max = None
        self.enum = None
        self.patterns = []  # conjunction of pattern groups (each group a list = disjunction)
        self.length = None
        self.min_length = None
        self.max_length = None
        self.members = []
        self.item = None

    def int_range(self):
        """Inclusive integer range (lo, hi) with None for unbounded; only for integer types."""
        lo = hi = None
        if self.min is not None:
            lo = self.min[0] if self.min[1] else self.min[0] + 1
        if self.max is not None:
            hi = self.max[0] if self.max[1] else self.max[0] - 1
        return lo, hi

    def __repr__(self):
        return "<ST %s %s %s..%s enum=%s members=%s>" % (self.name, self.prim, self.min, self.max,
                                                       None if self.enum is None else len(self.enum), [m.name for m in self.members])


class Attr:
    def __init__(self, name, type_q, use, default, fixed=None):
        self.name = name  # prefixed when namespaced (r:id), plain otherwise
        self.type_q = type_q
        self.use = use
        self.default = default
        self.fixed = fixed


class Slot:
    """One position of a type's flattened top-level sequence."""

    def __init__(self, tags, lo, hi, exact=True, types=None, kind="element"):
        self.tags = list(tags)
        self.min = lo
        self.max = hi
        self.exact = exact
        self.types = types or {}  # tag -> type key (ns, name) or inline node
        self.kind = kind

    def __repr__(self):
        return "Slot(%s,%s..%s%s)" % ("|".join(self.tags), self.min, "*" if self.max >= UNBOUNDED else self.max, "" if self.exact else ",inexact")


class Schemas:
    def __init__(self, spec_dir=SPEC):
        self.simple = {}
        self.complex = {}
        self.groups = {}
        self.attr_groups = {}
        self.elements = {}
        self.attributes = {}
        self.ns_of = {}
        self.files = []
        from pptx.oxml.ns import _nsmap

        self.prefix_of = {}
        for pfx, uri in _nsmap.items():
            self.prefix_of.setdefault(uri, pfx)
        self.prefix_of["http://schemas.openxmlformats.org/officeDocument/2006/sharedTypes"] = "s"
        self.prefix_of["http://schemas.openxmlformats.org/drawingml/2006/diagram"] = "dgm"
        self.prefix_of["http://schemas.openxmlformats.org/drawingml/2006/chartDrawing"] = "cdr"
        self.prefix_of["http://schemas.openxmlformats.org/drawingml/2006/lockedCanvas"] = "lc"
        self.prefix_of["http://www.w3.org/XML/1998/namespace"] = "xml"
        for rel in FILES:
            path = os.path.join(spec_dir, rel)
            if not os.path.exists(path):
                continue
            self.files.append(path)
            root = etree.parse(path).getroot()
            tns = root.get("targetNamespace")
            for ch in root:
                if not isinstance(ch.tag, str):
                    continue
                kind = etree.QName(ch).localname
                name = ch.get("name")
                if name is None:
                    continue
                key = (tns, name)
                table = {"simpleType": self.simple, "complexType": self.complex, "group": self.groups,
                         "attributeGroup": self.attr_groups, "element": self.elements, "attribute": self.attributes}.get(kind)
                if table is not None:
                    table[key] = ch
                    self.ns_of[id(ch)] = tns
        self._st_cache = {}
        self._ct_cache = {}

    # -- names --
    def tns(self, node):
        root = node.getroottree().getroot()
        return root.get("targetNamespace")

    def qname(self, node, text):
        """Resolve a QName attribute value against node's in-scope namespaces."""
        if ":" in text:
            pfx, local = text.split(":", 1)
            return (node.nsmap.get(pfx), local)
        ns = node.nsmap.get(None)
        if ns is None or ns == XSD_NS:
            # unprefixed: schemas here declare the target namespace as default when they use it
            ns = node.nsmap.get(None)
        return (ns, text)

    def ptag(self, ns, local):
        pfx = self.prefix_of.get(ns)
        if pfx is None:
            return "{%s}%s" % (ns, local)
        return "%s:%s" % (pfx, local)

    # -- simple types --
    def simple_type(self, key):
        if key in self._st_cache:
            return self._st_cache[key]
        ns, name = key
        if ns == XSD_NS:
            st = self._builtin(name)
        else:
            node = self.simple.get(key)
            if node is None:
                raise KeyError("no simple type %s" % (key,))
            st = self._simple_from_node(node, name)
        self._st_cache[key] = st
        return st

    def _builtin(self, name):
        st = SimpleType("xsd:" + name)
        if name in BUILTIN_INT:
            st.prim = "integer"
            lo, hi = BUILTIN_INT[name]
            st.min = (lo, True) if lo is not None else None
            st.max = (hi, True) if hi is not None else None
        elif name in BUILTIN_OTHER:
            st.prim = {"float": "double", "normalizedString": "string", "NCName": "token", "ID": "token", "language": "token",
                       "Name": "token", "NMTOKEN": "token"}.get(name, name)
        else:
            raise KeyError("unknown builtin xsd:%s" % name)
        return st

    def _simple_from_node(self, node, name):
        st = SimpleType(name or "(anonymous)")
        restr = node.find(XS + "restriction")
        union = node.find(XS + "union")
        lst = node.find(XS + "list")
        if restr is not None:
            if restr.get("base") is not None:
                base = self.simple_type(self.qname(restr, restr.get("base")))
            else:
                base = self._simple_from_node(restr.find(XS + "simpleType"), None)
            st.variety, st.prim, st.min, st.max = base.variety, base.prim, base.min, base.max
            st.enum = list(base.enum) if base.enum is not None else None
            st.patterns = list(base.patterns)
            st.length, st.min_length, st.max_length = base.length, base.min_length, base.max_length
            st.members = list(base.members)
            st.item = base.item
            enums = []
            pats = []
            for f in restr:
                if not isinstance(f.tag, str):
                    continue
                k = etree.QName(f).localname
                v = f.get("value")
                if k == "enumeration":
                    enums.append(v)
                elif k == "pattern":
                    pats.append(v)
                elif k in ("minInclusive", "minExclusive", "maxInclusive", "maxExclusive"):
                    num = int(v) if st.prim == "integer" else _dec(v)
                    pair = (num, k.endswith("Inclusive"))
                    if k.startswith("min"):
                        st.min = _tighter_min(st.min, pair)
                    else:
                        st.max = _tighter_max(st.max, pair)
                elif k == "length":
                    st.length = int(v)
                elif k == "minLength":
                    st.min_length = int(v)
                elif k == "maxLength":
                    st.max_length = int(v)
            if enums:
                st.enum = enums
            if pats:
                st.patterns.append(pats)
        elif union is not None:
            st.variety = "union"
            mts = union.get("memberTypes")
            if mts:
                for q in mts.split():
                    st.members.append(self.simple_type(self.qname(union, q)))
            for sub in union.findall(XS + "simpleType"):
                st.members.append(self._simple_from_node(sub, None))
        elif lst is not None:
            st.variety = "list"
            it = lst.get("itemType")
            st.item = self.simple_type(self.qname(lst, it)) if it else self._simple_from_node(lst.find(XS + "simpleType"), None)
        return st

    def find_simple(self, local):
        """All simple types with this local name (across namespaces)."""
        return [k for k in self.simple if k[1] == local]

    # -- complex types --
    def complex_type(self, key):
        if key in self._ct_cache:
            return self._ct_cache[key]
        node = self.complex.get(key) if isinstance(key, tuple) else key
        if node is None:
            raise KeyError("no complex type %s" % (key,))
        ct = ComplexType(self, node, key if isinstance(key, tuple) else (self.tns(node), "(inline@%s)" % node.sourceline))
        self._ct_cache[key] = ct
        return ct


def _dec(v):
    import fractions

    return fractions.Fraction(v)


def _tighter_min(cur, new):
    if cur is None:
        return new
    if new[0] > cur[0] or (new[0] == cur[0] and not new[1]):
        return new
    return cur


def _tighter_max(cur, new):
    if cur is None:
        return new
    if new[0] < cur[0] or (new[0] == cur[0] and not new[1]):
        return new
    return cur


def _occ(node):
    lo = int(node.get("minOccurs", "1"))
    hi = node.get("maxOccurs", "1")
    hi = UNBOUNDED if hi == "unbounded" else int(hi)
    return lo, hi


class ComplexType:
    def __init__(self, S, node, key):
        self.S = S
        self.node = node
        self.key = key
        self.name = key[1]
        self.attrs = {}
        self.any_attr = False
        self.slots = []
        self.exact = True
        self.simple_content = None
        self.mixed = node.get("mixed") == "true"
        self._build()

    def _build(self):
        S, node = self.S, self.node
        content = node
        cc = node.find(XS + "complexContent")
        sc = node.find(XS + "simpleContent")
        base_slots = []
        if cc is not None or sc is not None:
            inner = (cc if cc is not None else sc)
            ext = inner.find(XS + "extension")
            if ext is None:
                ext = inner.find(XS + "restriction")
            if ext is not None:
                bq = S.qname(ext, ext.get("base"))
                if bq in S.complex:
                    base = S.complex_type(bq)
                    self.attrs.update(base.attrs)
                    base_slots = list(base.slots)
                    self.exact = base.exact
                elif sc is not None:
                    self.simple_content = bq
                content = ext
        self._attrs_from(content)
        part = None
        for k in ("sequence", "choice", "all", "group"):
            part = content.find(XS + k)
            if part is not None:
                break
        self.slots = base_slots
        if part is not None:
            self._flatten(part, 1, 1, top=True)

    def _attrs_from(self, content):
        S = self.S
        for a in content.findall(XS + "attribute"):
            if a.get("ref"):
                ns, local = S.qname(a, a.get("ref"))
                g = S.attributes.get((ns, local))
                tq = S.qname(g, g.get("type")) if g is not None and g.get("type") else (XSD_NS, "string")
                self.attrs[S.ptag(ns, local)] = Attr(S.ptag(ns, local), tq, a.get("use", "optional"), a.get("default"), a.get("fixed"))
            else:
                t = a.get("type")
                if t:
                    tq = S.qname(a, t)
                else:
                    st = a.find(XS + "simpleType")
                    tq = st if st is not None else (XSD_NS, "string")
                name = a.get("name")
                if a.get("form") == "qualified":
                    name = S.ptag(S.tns(a), name)
                self.attrs[name] = Attr(name, tq, a.get("use", "optional"), a.get("default"), a.get("fixed"))
        for g in content.findall(XS + "attributeGroup"):
            gq = S.qname(g, g.get("ref"))
            gn = S.attr_groups.get(gq)
            if gn is not None:
                self._attrs_from(gn)
        if content.find(XS + "anyAttribute") is not None:
            self.any_attr = True

    # -- content model flattening --
    def _elem_tag_type(self, e):
        S = self.S
        if e.get("ref"):
            ns, local = S.qname(e, e.get("ref"))
            g = S.elements.get((ns, local))
            ty = None
            if g is not None:
                if g.get("type"):
                    ty = S.qname(g, g.get("type"))
                elif g.find(XS + "complexType") is not None:
                    ty = g.find(XS + "complexType")
            return S.ptag(ns, local), ty
        name = e.get("name")
        root = e.getroottree().getroot()
        qualified = e.get("form", root.get("elementFormDefault", "unqualified")) == "qualified"
        tag = S.ptag(S.tns(e), name) if qualified else name
        ty = None
        if e.get("type"):
            ty = S.qname(e, e.get("type"))
        elif e.find(XS + "complexType") is not None:
            ty = e.find(XS + "complexType")
        return tag, ty

    def _flatten(self, part, lo, hi, top=False):
        S = self.S
        kind = etree.QName(part).localname
        plo, phi = _occ(part)
        if kind == "group":
            g = S.groups.get(S.qname(part, part.get("ref")))
            inner = None
            for k in ("sequence", "choice", "all"):
                inner = g.find(XS + k)
                if inner is not None:
                    break
            ilo, ihi = _occ(inner)
            # occurrence of the reference multiplies the group's particle
            return self._flatten_as(inner, plo * ilo, min(UNBOUNDED, phi * ihi if phi < UNBOUNDED and ihi < UNBOUNDED else UNBOUNDED))
        return self._flatten_as(part, plo, phi)

    def _flatten_as(self, part, lo, hi):
        kind = etree.QName(part).localname
        if kind == "sequence":
            if (lo, hi) == (1, 1):
                for ch in part:
                    if not isinstance(ch.tag, str):
                        continue
                    k = etree.QName(ch).localname
                    if k == "element":
                        tag, ty = self._elem_tag_type(ch)
                        elo, ehi = _occ(ch)
                        self.slots.append(Slot([tag], elo, ehi, True, {tag: ty}, "element"))
                    elif k in ("sequence", "choice", "group", "all"):
                        self._flatten(ch, 1, 1)
                    elif k == "any":
                        elo, ehi = _occ(ch)
                        self.slots.append(Slot(["##any"], elo, ehi, True, {}, "any"))
                return
            # optional / repeated nested sequence
            tags, types, _ = self._collect(part)
            if lo == 0 and hi == 1 and all(isinstance(c.tag, str) and etree.QName(c).localname == "element" for c in part):
                # optional sequence of elements: each element becomes an optional slot; "all or none"
                # coupling between them is not expressed -> inexact
                for ch in part:
                    tag, ty = self._elem_tag_type(ch)
                    elo, ehi = _occ(ch)
                    self.slots.append(Slot([tag], 0, ehi, False, {tag: ty}, "element"))
                self.exact = False
                return
            self.slots.append(Slot(tags, 0 if lo == 0 else lo, UNBOUNDED if hi > 1 else hi, False, types, "sequence"))
            self.exact = False
            return
        if kind in ("choice", "all"):
            tags, types, simple = self._collect(part)
            alts_lo = []
            alts_hi = []
            for ch in part:
                if isinstance(ch.tag, str):
                    a, b = _occ(ch)
                    alts_lo.append(a)
                    alts_hi.append(b)
            exact = simple
            if kind == "all":
                # xsd:all: any order, each at most once -> one repeatable slot, approximated
                self.slots.append(Slot(tags, 0, UNBOUNDED, False, types, "all"))
                self.exact = False
                return
            mlo = lo * (min(alts_lo) if alts_lo else 0)
            if hi >= UNBOUNDED or (alts_hi and max(alts_hi) >= UNBOUNDED and hi > 1):
                mhi = UNBOUNDED
            else:
                mhi = hi * (max(alts_hi) if alts_hi else 1)
            if hi == 1 and alts_hi and max(alts_hi) > 1:
                exact = False  # one alternative may repeat but alternatives may not mix
                mhi = UNBOUNDED if max(alts_hi) >= UNBOUNDED else max(alts_hi)
            if not exact:
                self.exact = False
            self.slots.append(Slot(tags, mlo, mhi, exact, types, "choice"))
            return
        if kind == "group":
            return self._flatten(part, lo, hi)
        raise ValueError("unexpected particle %s" % kind)

    def _collect(self, part):
        """All element tags reachable in `part`; simple=True when part is a flat choice of elements/groups-of-choices."""
        S = self.S
        tags, types = [], {}
        simple = True
        for ch in part:
            if not isinstance(ch.tag, str):
                continue
            k = etree.QName(ch).localname
            if k == "element":
                tag, ty = self._elem_tag_type(ch)
                tags.append(tag)
                types[tag] = ty
            elif k == "any":
                tags.append("##any")
            elif k == "group":
                g = S.groups.get(S.qname(ch, ch.get("ref")))
                inner = None
                for kk in ("sequence", "choice", "all"):
                    inner = g.find(XS + kk)
                    if inner is not None:
                        break
                t2, ty2, s2 = self._collect(inner)
                if etree.QName(inner).localname != "choice" or not s2:
                    simple = False
                if etree.QName(part).localname != "choice":
                    simple = False
                tags += t2
                types.update(ty2)
            elif k in ("sequence", "choice", "all"):
                t2, ty2, s2 = self._collect(ch)
                if k != "choice" or etree.QName(part).localname != "choice" or not s2:
                    simple = False
                tags += t2
                types.update(ty2)
        return tags, types, simple

    def child_type(self, tag):
        for s in self.slots:
            if tag in s.types:
                return s.types[tag]
        return None

    def slot_of(self, tag):
        for i, s in enumerate(self.slots):
            if tag in s.tags:
                return i
        return None

    def all_tags(self):
        return [t for s in self.slots for t in s.tags]


ROOTS = [
    ("p", "sld"), ("p", "sldLayout"), ("p", "sldMaster"), ("p", "notes"), ("p", "notesMaster"), ("p", "presentation"),
    ("p", "handoutMaster"), ("c", "chartSpace"), ("cp", "coreProperties"), ("ct", "Types"), ("pr", "Relationships"),
    ("a", "theme"), ("a", "tbl"), ("pic", "pic"), ("p", "oleObj"), ("c", "userShapes"), ("a", "graphic"),
]


@functools.lru_cache(maxsize=1)
def load():
    return Schemas()


def reachable_types(S=None):
    """Walk element declarations from the part roots.  Returns {tag: {type_key: ComplexType}} and
    the parent relation {(type_key, tag): child ComplexType}."""
    S = S or load()
    from pptx.oxml.ns import _nsmap

    by_tag = {}
    todo = []
    for pfx, local in ROOTS:
        ns = _nsmap.get(pfx)
        g = S.elements.get((ns, local))
        if g is None:
            continue
        ty = S.qname(g, g.get("type")) if g.get("type") else g.find(XS + "complexType")
        if ty is None:
            continue
        todo.append((S.ptag(ns, local), ty))
    seen = set()
    while todo:
        tag, ty = todo.pop()
        key = ty if isinstance(ty, tuple) else ("inline", id(ty))
        if isinstance(ty, tuple) and ty not in S.complex:
            continue  # simple-typed element (text content)
        try:
            ct = S.complex_type(ty)
        except KeyError:
            continue
        by_tag.setdefault(tag, {})[ct.key] = ct
        if (tag, ct.key) in seen:
            continue
        seen.add((tag, ct.key))
        for s in ct.slots:
            for t, cty in s.types.items():
                if cty is not None:
                    todo.append((t, cty))
    return by_tag

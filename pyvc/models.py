"""Models (ASSUMED contracts) of Python built-ins on symbolic values.  DESIGN.md Appendix B.

Every handler records the assumption it embodies in `path.assumed` when it is exercised on a
symbolic value, so the evidence lists exactly the assumed contracts a proof relied on."""
from __future__ import annotations

import builtins
import numbers

import z3

from .engine import (
    Atom, FmtInt, FmtReal, PyRaise, SObj, SSeq, SStr, SExc, Unsupported, _as_sstr, _mkstr, deep_concrete,
    is_intlike, is_num, is_symscalar, is_z3, model, real_round_half_even, real_trunc, to_int, to_real,
    _is_canonical_int, _and, _or,
)


def _assume(it, text):
    it.path.assumed.add(text)


@model(builtins.int)
def m_int(it, args, kw):
    if not args:
        return 0
    v = args[0]
    if len(args) > 1 or kw:
        if deep_concrete(args) and deep_concrete(kw):
            return it.native(int, args, kw)
        if isinstance(v, SStr) and len(args) == 2 and args[1] == 16 and v.z3() is not None:
            return parse_int(it, v, base=16)
        raise Unsupported("int() with base on symbolic value")
    if is_z3(v):
        if z3.is_int(v):
            return v
        if z3.is_bool(v):
            return to_int(v)
        if z3.is_real(v):
            _assume(it, "float->int is truncation toward zero over the reals (IEEE double treated as R)")
            return real_trunc(v)
    if isinstance(v, SStr):
        return parse_int(it, v)
    if hasattr(v, "sym_int"):
        return v.sym_int(it)
    if isinstance(v, SObj):
        raise Unsupported("int() of object")
    if v is None:
        raise PyRaise(TypeError, ("int() argument must be a string or a number, not 'NoneType'",))
    return it.native(int, [v], {})


def parse_int(it, s, base=10):
    """int(str) for structured strings: FmtInt -> its term; otherwise literal parse."""
    parts = s.parts
    if len(parts) == 1 and isinstance(parts[0], FmtInt):
        _assume(it, "int(str(n)) == n (decimal rendering, zero-padded or not, is inverse to parsing)")
        return parts[0].term
    if len(parts) == 1 and isinstance(parts[0], Atom) and "intlit" in parts[0].tags:
        _assume(it, "int() parses every string of the xsd:integer lexical space")
        return parts[0].intval
    zs = s.z3()
    if zs is not None and not s.is_literal():
        from . import zstr

        _assume(it, "int(s%s) raises ValueError exactly outside the literal grammar [ws][+-]%sdigits(_digits)*[ws] over Unicode decimal digits" % (", 16" if base == 16 else "", "(0x)?hex" if base == 16 else ""))
        if not it.path.branch(z3.InRe(zs, zstr.int_literal_re(base))):
            raise PyRaise(ValueError, ("invalid literal for int() with base %d" % base,))
        v = it.path.fresh("parsed_int", z3.IntSort())
        if base == 10:
            it.path.assume(z3.Implies(z3.InRe(zs, z3.Plus(z3.Range("0", "9"))), v == z3.StrToInt(zs)))
        it.path.assume(z3.Implies(z3.Not(z3.Contains(zs, z3.StringVal("-"))), v >= 0))
        return v
    if s.is_literal():
        return it.native(int, [s.literal()], {})
    if any(isinstance(p, FmtReal) for p in parts) or any(isinstance(p, str) and p.strip() and not p.strip().lstrip("+-").isdigit() for p in parts):
        raise PyRaise(ValueError, ("invalid literal for int()",))
    raise Unsupported("int() of %r" % (s,))


@model(builtins.float)
def m_float(it, args, kw):
    if not args:
        return 0.0
    v = args[0]
    if is_z3(v):
        if z3.is_real(v):
            return v
        _assume(it, "int->float is exact (IEEE double treated as R)")
        return to_real(v)
    if isinstance(v, SStr):
        parts = v.parts
        if len(parts) == 1 and isinstance(parts[0], FmtReal):
            _assume(it, "float(repr(x)) == x")
            return parts[0].term
        if len(parts) == 1 and isinstance(parts[0], FmtInt):
            _assume(it, "float(str(n)) == n over the reals")
            return to_real(parts[0].term)
        if len(parts) == 1 and isinstance(parts[0], Atom) and "declit" in parts[0].tags:
            _assume(it, "float() parses every string of the xsd:decimal/double lexical space")
            return parts[0].realval
        if v.is_literal():
            return it.native(float, [v.literal()], {})
        zs = v.z3()
        if zs is not None:
            from . import zstr

            _assume(it, "float(s) raises ValueError exactly outside Python's float literal grammar")
            if not it.path.branch(z3.InRe(zs, zstr.float_literal_re())):
                raise PyRaise(ValueError, ("could not convert string to float",))
            return it.path.fresh("parsed_float", z3.RealSort())
        raise Unsupported("float() of %r" % (v,))
    if v is None:
        raise PyRaise(TypeError, ("float() argument must be a string or a real number",))
    return it.native(float, [v], {})


@model(builtins.str)
def m_str(it, args, kw):
    if not args:
        return ""
    if len(args) > 1:
        if deep_concrete(args):
            return it.native(str, args, kw)
        raise Unsupported("str(bytes, encoding) on symbolic")
    v = args[0]
    if is_z3(v) and z3.is_real(v):
        _assume(it, "str(float) is an injective rendering that float() inverts and matches the xsd:double lexical space for finite values")
    if is_z3(v) and (z3.is_int(v)):
        _assume(it, "str(int) is the canonical decimal rendering [-]?(0|[1-9][0-9]*)")
    return it.to_str(v)


@model(builtins.repr)
def m_repr(it, args, kw):
    return it.to_repr(args[0])


@model(builtins.bool)
def m_bool(it, args, kw):
    if not args:
        return False
    t = it.truth_term(args[0])
    return t


@model(builtins.abs)
def m_abs(it, args, kw):
    v = args[0]
    if is_z3(v):
        if is_intlike(v):
            v = to_int(v)
        return z3.If(v >= 0, v, -v)
    return it.native(abs, [v], {})


def _fold_minmax(it, vals, is_min):
    if not vals:
        raise PyRaise(ValueError, ("min()/max() arg is an empty sequence",))
    if deep_concrete(vals):
        return it.native(min if is_min else max, [vals], {})
    if not all(is_num(v) for v in vals):
        raise Unsupported("min/max over non-numeric symbolic values")
    allint = all(is_intlike(v) for v in vals)
    conv = to_int if allint else to_real
    acc = conv(vals[0])
    for v in vals[1:]:
        v = conv(v)
        # Python keeps the first on ties; for numbers the value is the same
        acc = z3.If(v < acc, v, acc) if is_min else z3.If(v > acc, v, acc)
    return acc


def _seq_minmax(it, seq, is_min):
    """min/max over a symbolic-length sequence: fresh witness with the defining axioms (ASSUMED
    contract of the built-in: result is an element and bounds every element)."""
    n = to_int(seq.length)
    if it.path.branch(n <= 0):
        raise PyRaise(ValueError, ("min()/max() arg is an empty sequence",))
    sample = seq.get(z3.IntVal(0))
    if not is_num(sample):
        raise Unsupported("min/max over symbolic sequence of non-numbers")
    isint = is_intlike(sample)
    conv = to_int if isint else to_real
    m = it.path.fresh("min" if is_min else "max", z3.IntSort() if isint else z3.RealSort())
    k = it.path.fresh("argm", z3.IntSort())
    j = z3.Int("j!%s" % m.decl().name())
    elem_j = conv(seq.get(j))
    bound = (m <= elem_j) if is_min else (m >= elem_j)
    it.path.assume(z3.ForAll([j], z3.Implies(z3.And(j >= 0, j < n), bound)))
    it.path.assume(z3.And(k >= 0, k < n, m == conv(seq.get(k))))
    _assume(it, "min()/max() of a non-empty sequence returns an element bounding all elements")
    return m


@model(builtins.min)
def m_min(it, args, kw):
    if kw:
        raise Unsupported("min with key/default")
    if len(args) == 1 and hasattr(args[0], "minmax"):
        return args[0].minmax(it, True)
    if len(args) == 1:
        if isinstance(args[0], SSeq):
            ln = z3.simplify(to_int(args[0].length))
            if not z3.is_int_value(ln):
                return _seq_minmax(it, args[0], True)
        return _fold_minmax(it, it.iterate(args[0]), True)
    return _fold_minmax(it, list(args), True)


@model(builtins.max)
def m_max(it, args, kw):
    if kw:
        raise Unsupported("max with key/default")
    if len(args) == 1 and hasattr(args[0], "minmax"):
        return args[0].minmax(it, False)
    if len(args) == 1:
        if isinstance(args[0], SSeq):
            ln = z3.simplify(to_int(args[0].length))
            if not z3.is_int_value(ln):
                return _seq_minmax(it, args[0], False)
        return _fold_minmax(it, it.iterate(args[0]), False)
    return _fold_minmax(it, list(args), False)


@model(builtins.sum)
def m_sum(it, args, kw):
    src = args[0]
    if type(src).__name__ == "SSeqGen":
        src = src.filtered
    if isinstance(src, SSeq) and not z3.is_int_value(z3.simplify(to_int(src.length))):
        from . import seqs

        src = seqs.SFiltered(to_int(src.length), lambda i: z3.BoolVal(True), src.getter, name=src.name)
    if type(src).__name__ == "SFiltered" and not getattr(src, "objects", False):
        # sum over a symbolic-length sequence of numbers: the value S(n) of the defining recursion S(0)=start, S(k+1)=S(k)+[cond(k)]*elt(k)
        start = args[1] if len(args) > 1 else 0
        sample = src.elt(z3.IntVal(0))
        isint = is_intlike(sample) and is_intlike(start)
        S = z3.Function("sum_prefix_%d" % len(it.path.ghost.setdefault("sums", [])), z3.IntSort(), z3.IntSort() if isint else z3.RealSort())
        k = z3.Int("sk%d" % len(it.path.ghost["sums"]))
        conv = to_int if isint else to_real
        it.path.assume(S(0) == conv(start))
        it.path.assume(z3.ForAll([k], z3.Implies(k >= 0, S(k + 1) == S(k) + z3.If(src.cond(k), conv(src.elt(k)), 0))))
        it.path.assumed.add("sum(): defining recursion of the running total over the sequence")
        it.path.ghost["sums"].append({"n": src.n, "total": S(src.n), "elt": src.elt, "cond": src.cond, "S": S})
        return S(src.n)
    items = it.iterate(args[0])
    acc = args[1] if len(args) > 1 else 0
    import ast as _ast

    for x in items:
        acc = it.binop(_ast.Add(), acc, x)
    return acc


@model(builtins.len)
def m_len(it, args, kw):
    v = args[0]
    if isinstance(v, SSeq):
        return to_int(v.length)
    if isinstance(v, SStr):
        if v.is_literal():
            return len(v.literal())
        if all(isinstance(p, str) or (isinstance(p, Atom) and getattr(p, "length", None) is not None) for p in v.parts):
            tot = 0
            for p in v.parts:
                tot = tot + (len(p) if isinstance(p, str) else p.length)
            return tot
        zs = v.z3()
        if zs is not None:
            return z3.Length(zs)
        raise Unsupported("len of symbolic string")
    if hasattr(v, "sym_len"):
        return v.sym_len(it)
    if isinstance(v, SObj):
        from .engine import _find_in_mro
        import types

        f = _find_in_mro(v.cls, "__len__") if v.cls else None
        if isinstance(f, types.FunctionType):
            return it.call_function(f, [v])
        raise PyRaise(TypeError, ("object has no len()",))
    if is_z3(v):
        raise PyRaise(TypeError, ("object of type 'int' has no len()",))
    return it.native(len, [v], {})


@model(builtins.round)
def m_round(it, args, kw):
    v = args[0]
    if len(args) > 1 or kw:
        if deep_concrete(args):
            return it.native(round, args, kw)
        raise Unsupported("round(x, ndigits) on symbolic value")
    if is_z3(v):
        if is_intlike(v):
            return to_int(v)
        _assume(it, "round(float) is round-half-to-even over the reals (IEEE double treated as R)")
        return real_round_half_even(v)
    return it.native(round, [v], {})


def sym_pytype(v):
    """Python type a symbolic scalar stands for."""
    if is_z3(v):
        if z3.is_bool(v):
            return bool
        if z3.is_int(v):
            return int
        if z3.is_real(v):
            return float
    if isinstance(v, SStr):
        return str
    if isinstance(v, SSeq):
        return list
    if isinstance(v, SObj):
        return v.cls
    if isinstance(v, SExc):
        return v.cls
    if hasattr(v, "sym_pytype"):
        return v.sym_pytype()
    return type(v)


@model(builtins.isinstance)
def m_isinstance(it, args, kw):
    v, t = args
    if deep_concrete(v):
        return isinstance(v, t)
    ty = sym_pytype(v)
    if ty is None:
        raise Unsupported("isinstance on untyped symbolic object")
    ts = t if isinstance(t, tuple) else (t,)
    return any(issubclass(ty, x) for x in ts)


@model(builtins.type)
def m_type(it, args, kw):
    if len(args) != 1:
        raise Unsupported("3-arg type()")
    v = args[0]
    if deep_concrete(v):
        return type(v)
    return sym_pytype(v)


@model(builtins.issubclass)
def m_issubclass(it, args, kw):
    return it.native(issubclass, args, kw)


@model(builtins.range)
def m_range(it, args, kw):
    if deep_concrete(args):
        return it.native(range, args, kw)
    if len(args) == 1:
        lo, hi = z3.IntVal(0), to_int(args[0])
    elif len(args) == 2:
        lo, hi = to_int(args[0]), to_int(args[1])
    elif len(args) == 3 and args[2] == -1:
        lo, hi = to_int(args[0]), to_int(args[1])
        n = z3.If(lo > hi, lo - hi, z3.IntVal(0))
        return SSeq(n, lambda i, lo=lo: lo - to_int(i), name="range(-1)")
    else:
        raise Unsupported("symbolic range with step")
    n = z3.If(hi > lo, hi - lo, z3.IntVal(0))
    return SSeq(n, lambda i, lo=lo: lo + to_int(i), name="range")


@model(builtins.enumerate)
def m_enumerate(it, args, kw):
    start = args[1] if len(args) > 1 else kw.get("start", 0)
    seq = it.resolve_iterable(args[0])
    if isinstance(seq, SSeq) and not z3.is_int_value(z3.simplify(to_int(seq.length))):
        return SSeq(seq.length, lambda i, seq=seq: (to_int(i) + start, seq.get(i)), name="enumerate(%s)" % seq.name)
    items = it.iterate(seq)
    return [(i + start, x) for i, x in enumerate(items)]


@model(builtins.zip)
def m_zip(it, args, kw):
    lists = [it.iterate(a) for a in args]
    return list(zip(*lists))


@model(builtins.list)
def m_list(it, args, kw):
    if not args:
        return []
    if isinstance(args[0], SSeq) and not z3.is_int_value(z3.simplify(to_int(args[0].length))):
        return args[0]
    if hasattr(args[0], "sym_list"):
        return args[0].sym_list(it)
    return list(it.iterate(args[0]))


@model(builtins.tuple)
def m_tuple(it, args, kw):
    if not args:
        return ()
    if isinstance(args[0], SSeq) and not z3.is_int_value(z3.simplify(to_int(args[0].length))):
        return args[0]
    if type(args[0]).__name__ == "SFiltered" and getattr(args[0], "objects", False):
        return args[0]  # tuple(<symbolic generator>): the same (lazy) sequence
    return tuple(it.iterate(args[0]))


@model(builtins.dict)
def m_dict(it, args, kw):
    d = {}
    if args:
        src = args[0]
        if isinstance(src, dict):
            d.update(src)
        else:
            for k, v in it.iterate(src):
                if not deep_concrete(k):
                    raise Unsupported("dict() with symbolic key")
                d[k] = v
    d.update(kw)
    return d


@model(builtins.set)
def m_set(it, args, kw):
    if not args:
        return set()
    items = it.iterate(args[0])
    if not deep_concrete(items):
        raise Unsupported("set() of symbolic members")
    return set(items)


@model(builtins.frozenset)
def m_frozenset(it, args, kw):
    return frozenset(m_set(it, args, kw))


@model(builtins.sorted)
def m_sorted(it, args, kw):
    src = args[0]
    if type(src).__name__ == "SSeqGen":
        src = src.filtered
    if isinstance(src, SSeq) and not z3.is_int_value(z3.simplify(to_int(src.length))):
        from . import seqs

        src = seqs.SFiltered(to_int(src.length), lambda i: z3.BoolVal(True), src.getter, name=src.name)
    if type(src).__name__ == "SFiltered":
        if kw:
            raise Unsupported("sorted(key=...) over a symbolic sequence")
        from . import seqs

        if getattr(src, "objects", False):
            return seqs.permuted(it, src)
        return seqs.SSorted(it, src).as_seq()
    items = it.iterate(args[0])
    if deep_concrete(items) and deep_concrete(kw):
        return it.native(sorted, [items], kw)
    raise Unsupported("sorted() of symbolic values")


@model(builtins.reversed)
def m_reversed(it, args, kw):
    return list(reversed(it.iterate(args[0])))


@model(builtins.any)
def m_any(it, args, kw):
    acc = False
    for x in it.iterate(args[0]):
        acc = _or(acc, it.truth_term(x))
        if acc is True:
            return True
    return acc


@model(builtins.all)
def m_all(it, args, kw):
    acc = True
    for x in it.iterate(args[0]):
        acc = _and(acc, it.truth_term(x))
        if acc is False:
            return False
    return acc


@model(builtins.next)
def m_next(it, args, kw):
    src = args[0]
    if isinstance(src, list):
        if src:
            return src.pop(0)
        if len(args) > 1:
            return args[1]
        raise PyRaise(StopIteration, ())
    if hasattr(src, "sym_next"):
        return src.sym_next(it, args[1:] )
    if deep_concrete(src):
        return it.native(next, args, kw)
    raise Unsupported("next() on %r" % (src,))


@model(builtins.iter)
def m_iter(it, args, kw):
    return list(it.iterate(args[0]))


@model(builtins.getattr)
def m_getattr(it, args, kw):
    obj, name = args[0], args[1]
    if not isinstance(name, str):
        raise Unsupported("getattr with non-constant name")
    if len(args) == 3:
        try:
            return it.getattr(obj, name)
        except PyRaise as e:
            if issubclass(e.exc_cls, AttributeError):
                return args[2]
            raise
    return it.getattr(obj, name)


@model(builtins.setattr)
def m_setattr(it, args, kw):
    obj, name, v = args
    if not isinstance(name, str):
        raise Unsupported("setattr with non-constant name")
    it.setattr(obj, name, v)


@model(builtins.hasattr)
def m_hasattr(it, args, kw):
    obj, name = args
    try:
        it.getattr(obj, name)
        return True
    except PyRaise as e:
        if issubclass(e.exc_cls, AttributeError):
            return False
        raise


@model(builtins.super)
def m_super(it, args, kw):
    if len(args) == 2:
        return it.make_super(args[0], args[1])
    raise Unsupported("super() form")


@model(builtins.id)
def m_id(it, args, kw):
    return id(args[0])


@model(builtins.print)
def m_print(it, args, kw):
    return None


@model(builtins.callable)
def m_callable(it, args, kw):
    from .engine import BoundMethod, SFunc

    v = args[0]
    if isinstance(v, (BoundMethod, SFunc)):
        return True
    if deep_concrete(v):
        return callable(v)
    return False


@model(int.__new__)
def m_int_new(it, args, kw):
    # int.__new__(cls, v): the Length subclasses; value semantics of int are kept, the subclass tag dropped
    if len(args) == 1:
        return 0
    _assume(it, "int.__new__(LengthSubclass, v) behaves as the integer int(v) (subclass identity dropped)")
    return m_int(it, [args[1]], {})


@model(str.__new__)
def m_str_new(it, args, kw):
    if len(args) == 1:
        return ""
    v = args[1]
    cls = args[0]
    if cls is not str and isinstance(v, (str, SStr)):
        # instance of a str subclass (PackURI ...): same characters, attribute lookup goes through the subclass
        r = SStr([v])
        r.pycls = cls
        return r
    return v


@model(object.__new__)
def m_object_new(it, args, kw):
    return SObj(args[0])


@model(object.__init__)
def m_object_init(it, args, kw):
    return None


@model(builtins.chr)
def m_chr(it, args, kw):
    v = args[0]
    if is_z3(v):
        _assume(it, "chr(n) is the one-character string with code point n (0 <= n < 0x110000)")
        code = to_int(v)
        if not it.path.branch(z3.And(code >= 0, code < 0x110000)):
            raise PyRaise(ValueError, ("chr() arg not in range(0x110000)",))
        a = Atom("chr(%s)" % it.path.fresh("c", z3.IntSort()), nonempty=True, tags={"char"}, zs=z3.StrFromCode(code))
        a.code = code
        return SStr([a])
    return it.native(chr, [v], {})


@model(builtins.ord)
def m_ord(it, args, kw):
    v = args[0]
    if isinstance(v, SStr):
        if len(v.parts) == 1 and isinstance(v.parts[0], Atom) and hasattr(v.parts[0], "code"):
            return v.parts[0].code
        raise Unsupported("ord() of symbolic string")
    return it.native(ord, [v], {})


import datetime as _datetime

_ORD = z3.Function("date_ordinal", z3.IntSort(), z3.IntSort(), z3.IntSort(), z3.IntSort())


@model(_datetime.date)
def m_date(it, args, kw):
    if deep_concrete(args) and deep_concrete(kw):
        return it.native(_datetime.date, args, kw)
    if len(args) != 3:
        raise Unsupported("datetime.date with symbolic keyword arguments")
    _assume(it, "datetime.date(y, m, d) denotes a proleptic Gregorian day; its ordinal is an (uninterpreted) function of y, m, d")
    y, m, d = [to_int(a) for a in args]
    return SObj(_datetime.date, "date", year=y, month=m, day=d, _ordinal=_ORD(y, m, d))


def install():
    """Models are registered at import; this exists so callers can `models.install()` explicitly."""
    return True

"""Abstract lxml element, tag-sequence view (DESIGN.md 2.3).

An element under this view is `SElem(cls, kids)` where `kids` is a `Kids(n, f)`: a symbolic child
count `n` and a function `f` from index term to the *tag id* of that child (document order).  The
encoding uses an uninterpreted function plus index arithmetic rather than the sequence theory: the
quantified validity predicates then instantiate by E-matching and discharge in milliseconds.  The lxml calls python-pptx uses on it get ASSUMED contracts:

  find(clark)        first child with that tag in document order, or None
  findall(clark)     all children with that tag, document order (as a ghost index set)
  append(e)          kids' = kids ++ [tag(e)]
  addprevious(e)     (on a child at position p of parent)  parent.kids' = kids[:p] ++ [tag(e)] ++ kids[p:]
  addnext(e)         parent.kids' = kids[:p+1] ++ [tag(e)] ++ kids[p+1:]
  remove(child)      parent.kids' = kids[:p] ++ kids[p+1:]
  insert(i, e)       kids' = kids[:i] ++ [tag(e)] ++ kids[i:]   (0 <= i <= len)
  iterchildren()/len/index/getparent

Each assumed contract is probed natively on random small trees by the conformance probe in
contracts/externals.py.  Anything else on an SElem raises Unsupported.
"""
from __future__ import annotations

import z3

from .engine import GhostFn, PyRaise, SObj, Unsupported, _find_in_mro, to_int


class TagTable:
    """Bijection between prefixed tags ('a:pPr') and small ints for one verification problem."""

    def __init__(self, tags):
        self.tags = list(dict.fromkeys(tags))
        self.ids = {t: i for i, t in enumerate(self.tags)}

    def id(self, tag):
        return self.ids.get(tag)

    def clark_id(self, clark):
        from pptx.oxml.ns import NamespacePrefixedTag

        try:
            nspt = NamespacePrefixedTag.from_clark_name(clark)
        except Exception:
            return None
        return self.ids.get(str(nspt))


class Kids:
    """Child sequence: length term `n`, `f(i)` = tag id term of child i."""

    def __init__(self, n, f, fwd=None, last_insert=None):
        self.n = n
        self.f = f
        self.fwd = fwd or (lambda i: i)  # index in the ORIGINAL sequence -> index now (ghost)
        self.last_insert = last_insert  # position of the most recently inserted child (ghost)

    @staticmethod
    def symbolic(name="K"):
        K = z3.Function(name, z3.IntSort(), z3.IntSort())
        n = z3.Int("n_" + name)
        return Kids(n, lambda i, K=K: K(i)), K, n

    def inserted(self, p, t):
        f, fwd = self.f, self.fwd
        return Kids(self.n + 1, lambda i, f=f, p=p, t=t: z3.If(i < p, f(i), z3.If(i == p, z3.IntVal(t) if isinstance(t, int) else t, f(i - 1))),
                    fwd=lambda i, fwd=fwd, p=p: z3.If(fwd(i) < p, fwd(i), fwd(i) + 1), last_insert=p)

    def removed(self, p):
        f, fwd = self.f, self.fwd
        li = self.last_insert
        return Kids(self.n - 1, lambda i, f=f, p=p: z3.If(i < p, f(i), f(i + 1)),
                    fwd=lambda i, fwd=fwd, p=p: z3.If(fwd(i) < p, fwd(i), fwd(i) - 1),
                    last_insert=None if li is None else z3.If(li < p, li, li - 1))

    def without(self, tids, tag):
        """Result of removing every child whose tag id is in `tids` (ASSUMED contract of
        BaseOxmlElement.remove_all; order of the others preserved).  g: new index -> old index,
        h: old index -> new index, both uninterpreted with the defining axioms returned as `facts`."""
        g = z3.Function("g_%s" % tag, z3.IntSort(), z3.IntSort())
        h = z3.Function("h_%s" % tag, z3.IntSort(), z3.IntSort())
        n2 = z3.Int("n_%s" % tag)
        f, n, fwd = self.f, self.n, self.fwd
        i, j = z3.Ints("ri_%s rj_%s" % (tag, tag))
        removed = lambda x: z3.Or(*[x == t for t in tids]) if tids else z3.BoolVal(False)
        facts = z3.And(
            n2 >= 0, n2 <= n,
            z3.ForAll([i], z3.Implies(z3.And(0 <= i, i < n2), z3.And(0 <= g(i), g(i) < n, z3.Not(removed(f(g(i)))), h(g(i)) == i))),
            z3.ForAll([i, j], z3.Implies(z3.And(0 <= i, i < j, j < n2), g(i) < g(j))),
            z3.ForAll([j], z3.Implies(z3.And(0 <= j, j < n, z3.Not(removed(f(j)))), z3.And(0 <= h(j), h(j) < n2, g(h(j)) == j))),
        )
        li = self.last_insert
        k2 = Kids(n2, lambda x, f=f, g=g: f(g(x)), fwd=lambda x, fwd=fwd, h=h: h(fwd(x)), last_insert=None if li is None else h(li))
        return k2, facts

    def absent(self, t, tag=""):
        j = z3.Int("ja%s" % tag)
        return z3.ForAll([j], z3.Implies(z3.And(j >= 0, j < self.n), self.f(j) != t))

    def same_as(self, other, tag=""):
        j = z3.Int("js%s" % tag)
        return z3.And(self.n == other.n, z3.ForAll([j], z3.Implies(z3.And(j >= 0, j < self.n), self.f(j) == other.f(j))))


_TABLE_STACK = []
_FRESH = [0]


class SElem:
    __pyvc_symbolic__ = True
    """Abstract element.  `kids`: Kids.  `tagid`: own tag id (int) or None."""

    def __init__(self, cls, table, kids=None, tagid=None, name="elem"):
        self.cls = cls
        self.table = table
        self.kids = kids if kids is not None else Kids(z3.IntVal(0), lambda i: z3.IntVal(-1))
        self.tagid = tagid
        self.name = name
        self.parent = None
        self.fields = {}
        self.log = []  # ghost log of mutations, for frame clauses
        _TABLE_STACK[:] = [table]

    # -- engine hooks --
    def sym_pytype(self):
        return self.cls

    def sym_truth(self, it):
        # lxml: the truth value of an element is "has children" (deprecated, FutureWarning), not "exists"
        raise Unsupported("truth value of an lxml element (means 'has children'); compare with None instead")

    def sym_is(self, it, other):
        return self is other

    def sym_getattr(self, it, name):
        if name in self.fields:
            return self.fields[name]
        h = getattr(self, "x_" + name, None)
        if h is not None:
            return GhostFn(lambda interp, a, k, h=h: h(interp, *a, **k), "lxml." + name)
        if name == "tag":
            from pptx.oxml.ns import qn

            if self.tagid is None:
                raise Unsupported("tag of untagged abstract element")
            return qn(self.table.tags[self.tagid])
        if self.cls is None:
            raise PyRaise(AttributeError, (name,))
        d = _find_in_mro(self.cls, name)
        if d is None:
            raise PyRaise(AttributeError, ("%s has no attribute %s" % (self.cls.__name__, name),))
        for k in self.cls.__mro__:
            if name in k.__dict__:
                if k.__module__.startswith("lxml"):
                    raise Unsupported("lxml member %s has no assumed contract in the tag-sequence view" % name)
                break
        return it.bind_descriptor(d, self, self.cls, name)

    def sym_setattr(self, it, name, v):
        d = _find_in_mro(self.cls, name) if self.cls is not None else None
        if isinstance(d, property) and d.fset is not None:
            return it.call(d.fset, [self, v])
        self.fields[name] = v

    # -- assumed lxml contracts --
    def _tid(self, clark):
        return self.table.clark_id(clark)

    def x_find(self, it, clark, *a, **k):
        it.path.assumed.add("lxml find(tag): first child with that tag in document order, None if absent")
        t = self._tid(clark)
        if t is None:
            return None  # a tag outside the type's content model never occurs in a valid parent
        kids = self.kids
        _FRESH[0] += 1
        if it.path.fork_free(2) == 1:
            it.path.assume(kids.absent(t, "f%d" % _FRESH[0]))
            return None
        p = it.path.fresh("pos", z3.IntSort())
        j = z3.Int("j!%s" % p.decl().name())
        it.path.assume(z3.And(p >= 0, p < kids.n, kids.f(p) == t,
                              z3.ForAll([j], z3.Implies(z3.And(j >= 0, j < p), kids.f(j) != t))))
        return SChild(self, p, t)

    def x_append(self, it, child):
        it.path.assumed.add("lxml append(e): e becomes the last child")
        t = _child_tag(child)
        self.kids = self.kids.inserted(self.kids.n, t)
        self.log.append(("append", t))
        _attach(child, self)

    def x_insert(self, it, idx, child):
        it.path.assumed.add("lxml insert(i, e): e becomes child i, later children shift")
        i = to_int(idx)
        if not it.path.branch(z3.And(i >= 0, i <= self.kids.n)):
            raise Unsupported("insert index outside 0..len (lxml clamps; not modelled)")
        t = _child_tag(child)
        self.kids = self.kids.inserted(i, t)
        self.log.append(("insert", t))
        _attach(child, self)

    def x_remove(self, it, child):
        it.path.assumed.add("lxml remove(child): that child is removed, the others keep their order")
        if not isinstance(child, SChild) or child.parent is not self:
            raise Unsupported("remove of a non-child handle")
        self.kids = self.kids.removed(child.pos)
        self.log.append(("remove", child.tagid))

    def x_getparent(self, it):
        return self.parent

    def summary_remove_all(self, it, tagnames):
        """ASSUMED contract standing for BaseOxmlElement.remove_all(*tagnames) (bounded native check in
        contracts/externals.py): every child with one of the tags is removed, the others keep their order."""
        it.path.assumed.add("BaseOxmlElement.remove_all(*tags): removes exactly the children with those tags, others keep their order "
                            "(summary; its loop over findall() is checked natively on all child lists <= 4, not proved)")
        from pptx.oxml.ns import qn

        tids = [t for t in (self._tid(qn(n)) for n in tagnames) if t is not None]
        if not tids:
            return None
        _FRESH[0] += 1
        self.kids, facts = self.kids.without(tids, "rm%d" % _FRESH[0])
        it.path.assume(facts)
        self.log.append(("remove_all", tuple(tids)))
        return None

    def sym_len(self, it):
        return self.kids.n

    def sym_lazy_filter(self, it, node, gen, frame):
        """`(expr for child in self if cond)`: lazily filtered iteration over the children."""
        return SFilterGen(self, node, gen, frame)


class STag:
    __pyvc_symbolic__ = True
    """Tag of a child whose tag id is a term; compares against clark-name strings."""

    def __init__(self, term, table):
        self.term = term
        self.table = table

    def sym_eq(self, it, other):
        if isinstance(other, STag):
            return self.term == other.term
        if isinstance(other, str):
            tid = self.table.clark_id(other)
            if tid is None:
                return False
            return self.term == tid
        return False


class SFilterGen:
    __pyvc_symbolic__ = True
    """Generator `(elt for child in parent if cond(child))` over an abstract element; only `next()`
    is supported (first child, in document order, satisfying the filter) -- ASSUMED: iteration of an
    lxml element yields its children in document order."""

    def __init__(self, parent, node, gen, frame):
        self.parent = parent
        self.node = node
        self.gen = gen
        self.frame = frame

    def _cond_at(self, it, idx):
        """z3 Bool: the filter holds for the child at index term `idx`."""
        from .engine import Frame, _and, to_bool_term

        fr = Frame(self.frame.fn, {}, self.frame.node, self.frame.qn)
        fr.globals, fr.cells, fr.parent = self.frame.globals, self.frame.cells, self.frame
        child = SChild(self.parent, idx, None, tagterm=self.parent.kids.f(idx))
        it.assign(self.gen.target, child, fr)
        acc = True
        for c in self.gen.ifs:
            acc = _and(acc, it.truth_term(it.eval(c, fr)))
        return to_bool_term(acc), child, fr

    def sym_next(self, it, rest):
        it.path.assumed.add("iterating an lxml element yields its children in document order")
        kids = self.parent.kids
        _FRESH[0] += 1
        j = z3.Int("jf%d" % _FRESH[0])
        cond_j, _, _ = self._cond_at(it, j)
        if it.path.fork_free(2) == 1:
            it.path.assume(z3.ForAll([j], z3.Implies(z3.And(j >= 0, j < kids.n), z3.Not(cond_j))))
            if rest:
                return rest[0]
            raise PyRaise(StopIteration, ())
        p = it.path.fresh("pos", z3.IntSort())
        cond_p, child, fr = self._cond_at(it, p)
        it.path.assume(z3.And(p >= 0, p < kids.n, cond_p,
                              z3.ForAll([j], z3.Implies(z3.And(j >= 0, j < p), z3.Not(cond_j)))))
        return it.eval(self.node.elt, fr)


class OpaqueMember(GhostFn):
    """member of an unmodelled child: callable, indexable, attribute-bearing; always another opaque member"""

    __pyvc_symbolic__ = True

    def __init__(self):
        GhostFn.__init__(self, lambda it, a, k: OpaqueMember(), "opaque member")

    def sym_truth(self, it):
        return bool(it.path.branch(it.path.fresh("opaque_truth", z3.BoolSort())))

    def sym_getattr(self, it, name):
        return OpaqueMember()

    def sym_setattr(self, it, name, v):
        return None

    def sym_getitem(self, it, key):
        return OpaqueMember()

    def sym_is_none(self, it):
        return bool(it.path.branch(it.path.fresh("opaque_is_none", z3.BoolSort())))

    def sym_iter(self, it):
        return []


class SChild:
    __pyvc_symbolic__ = True
    """Handle to the child at (symbolic) position `pos` of `parent`."""

    def __init__(self, parent, pos, tagid, tagterm=None):
        self.parent = parent
        self.pos = pos
        self.tagid = tagid  # concrete tag id, or None when only the term is known
        self.tagterm = tagterm if tagterm is not None else (z3.IntVal(tagid) if tagid is not None else None)
        self.fields = {}

    def sym_truth(self, it):
        raise Unsupported("truth value of an lxml element (means 'has children'); compare with None instead")

    def sym_pytype(self):
        from . import decls

        if self.tagid is None:
            return None
        tag = self.parent.table.tags[self.tagid]
        return decls.registry().get(tag)

    def sym_is(self, it, other):
        return self is other

    def sym_getattr(self, it, name):
        if name == "addprevious":
            return GhostFn(lambda interp, a, k: self._add(interp, a[0], 0), "lxml.addprevious")
        if name == "addnext":
            return GhostFn(lambda interp, a, k: self._add(interp, a[0], 1), "lxml.addnext")
        if name == "getparent":
            return GhostFn(lambda interp, a, k: self.parent, "lxml.getparent")
        if name == "tag":
            from pptx.oxml.ns import qn

            if self.tagid is None:
                return STag(self.tagterm, self.parent.table)
            return qn(self.parent.table.tags[self.tagid])
        if name in self.fields:
            return self.fields[name]
        if getattr(self.parent, "opaque_children", False):
            # the contract is about the parent's child sequence only: whatever a child does to its own subtree or attributes is not
            # modelled (assumption recorded by the contract)
            it.path.assumed.add("a method or attribute of a child element changes that child's own subtree / attributes only")
            return OpaqueMember()
        raise Unsupported("attribute %s on an abstract child handle (tag-sequence view)" % name)

    def sym_setattr(self, it, name, v):
        if getattr(self.parent, "opaque_children", False):
            self.fields[name] = v
            return
        raise Unsupported("attribute store on %r" % (self,))

    def _add(self, it, elm, off):
        it.path.assumed.add("lxml addprevious/addnext(e): e is inserted as the sibling immediately before/after")
        par = self.parent
        t = _child_tag(elm)
        par.kids = par.kids.inserted(self.pos + off, t)
        par.log.append(("add%s" % ("next" if off else "previous"), t))
        _attach(elm, par)
        if not off:
            self.pos = self.pos + 1


def _child_tag(child):
    if isinstance(child, SElem):
        if child.tagid is None:
            raise Unsupported("inserting an untagged abstract element")
        return child.tagid
    if isinstance(child, SChild):
        return child.tagid if child.tagid is not None else child.tagterm
    tag = getattr(child, "tag", None)
    if isinstance(tag, str) and _TABLE_STACK:
        # a real (loose) lxml element created by the real creator (`_new_x` / OxmlElement)
        tid = _TABLE_STACK[-1].clark_id(tag)
        if tid is not None:
            return tid
        raise Unsupported("new child %s is not in the parent type's content model" % tag)
    raise Unsupported("inserting %r into an abstract element" % (child,))


def _attach(child, parent):
    if isinstance(child, SElem):
        child.parent = parent

"""z3 string / regex support: conversion of (XSD / Python `re`) patterns to z3 regular expressions
and the ASSUMED lexical grammars of Python's own parsers (int(), float(), str.isdigit())."""
from __future__ import annotations

import functools
import sys

import z3

try:  # Python 3.11+
    import re._parser as sre_parse
    import re._constants as sre_c
except ImportError:  # pragma: no cover
    import sre_parse
    import sre_constants as sre_c

MAXCH = 0x2FFFF  # z3's character domain


def _ch(c):
    return z3.StringVal(chr(c)) if isinstance(c, int) else z3.StringVal(c)


def _range(lo, hi):
    if lo == hi:
        return z3.Re(_ch(lo))
    return z3.Range(_ch(lo), _ch(hi))


def _union(rs):
    rs = list(rs)
    if not rs:
        return z3.Empty(z3.ReSort(z3.StringSort()))
    if len(rs) == 1:
        return rs[0]
    return z3.Union(*rs)


def _category(cat, negate=False):
    name = str(cat)
    if name.endswith("CATEGORY_DIGIT"):
        rs = [(0x30, 0x39)]
    elif name.endswith("CATEGORY_SPACE"):
        rs = [(9, 13), (32, 32)]
    elif name.endswith("CATEGORY_WORD"):
        rs = [(0x30, 0x39), (0x41, 0x5A), (0x5F, 0x5F), (0x61, 0x7A)]
    elif name.endswith("CATEGORY_NOT_DIGIT"):
        return _category(sre_c.CATEGORY_DIGIT, True)
    elif name.endswith("CATEGORY_NOT_SPACE"):
        return _category(sre_c.CATEGORY_SPACE, True)
    elif name.endswith("CATEGORY_NOT_WORD"):
        return _category(sre_c.CATEGORY_WORD, True)
    else:
        raise ValueError("regex category %s" % name)
    return _complement_ranges(rs) if negate else rs


def _complement_ranges(rs):
    rs = sorted(rs)
    out = []
    cur = 0
    for lo, hi in rs:
        if lo > cur:
            out.append((cur, lo - 1))
        cur = max(cur, hi + 1)
    if cur <= MAXCH:
        out.append((cur, MAXCH))
    return out


def _conv(items):
    parts = []
    for op, arg in items:
        name = str(op)
        if name == "LITERAL":
            parts.append(z3.Re(_ch(arg)))
        elif name == "NOT_LITERAL":
            parts.append(_union(_range(a, b) for a, b in _complement_ranges([(arg, arg)])))
        elif name == "ANY":
            parts.append(_union(_range(a, b) for a, b in _complement_ranges([(10, 10)])))
        elif name == "IN":
            rs = []
            neg = False
            for o2, a2 in arg:
                n2 = str(o2)
                if n2 == "NEGATE":
                    neg = True
                elif n2 == "LITERAL":
                    rs.append((a2, a2))
                elif n2 == "RANGE":
                    rs.append(a2)
                elif n2 == "CATEGORY":
                    rs += _category(a2)
                else:
                    raise ValueError("regex set item %s" % n2)
            if neg:
                rs = _complement_ranges(rs)
            parts.append(_union(_range(a, b) for a, b in rs))
        elif name in ("MAX_REPEAT", "MIN_REPEAT"):
            lo, hi, sub = arg
            r = _conv(sub)
            if hi == sre_c.MAXREPEAT:
                if lo == 0:
                    parts.append(z3.Star(r))
                elif lo == 1:
                    parts.append(z3.Plus(r))
                else:
                    parts.append(z3.Concat(z3.Loop(r, lo, lo), z3.Star(r)))
            else:
                if lo == 0 and hi == 1:
                    parts.append(z3.Option(r))
                else:
                    parts.append(z3.Loop(r, lo, hi))
        elif name == "SUBPATTERN":
            parts.append(_conv(arg[-1]))
        elif name == "BRANCH":
            parts.append(_union(_conv(b) for b in arg[1]))
        elif name == "AT":
            continue  # anchors: we always use full-match semantics
        else:
            raise ValueError("regex construct %s" % name)
    if not parts:
        return z3.Re(z3.StringVal(""))
    if len(parts) == 1:
        return parts[0]
    return z3.Concat(*parts)


@functools.lru_cache(maxsize=None)
def re_to_z3(pattern):
    """z3 regex with the *full-match* language of the Python/XSD pattern."""
    return _conv(list(sre_parse.parse(pattern)))


def _char_class(pred):
    rs = []
    start = None
    for cp in range(0, MAXCH + 2):
        ok = cp <= MAXCH and pred(chr(cp))
        if ok and start is None:
            start = cp
        elif not ok and start is not None:
            rs.append((start, cp - 1))
            start = None
    return rs


@functools.lru_cache(maxsize=None)
def isdigit_re():
    """Language of str.isdigit(): non-empty strings of characters c with c.isdigit() (from
    unicodedata of the running interpreter, code points <= 0x2FFFF)."""
    rs = _char_class(lambda c: c.isdigit())
    return z3.Plus(_union(_range(a, b) for a, b in rs))


@functools.lru_cache(maxsize=None)
def isdecimal_re():
    rs = _char_class(lambda c: c.isdecimal())
    return z3.Plus(_union(_range(a, b) for a, b in rs))


@functools.lru_cache(maxsize=None)
def int_literal_re(base=10):
    """Language accepted by int(s) / int(s, 16): optional whitespace, sign, (0x), digits with single underscores."""
    ws = z3.Star(_union(_range(a, b) for a, b in _char_class(lambda c: c.isspace())))
    sign = z3.Option(z3.Union(z3.Re("+"), z3.Re("-")))
    if base == 10:
        digit = _union(_range(a, b) for a, b in _char_class(lambda c: c.isdecimal()))
        pre = z3.Re(z3.StringVal(""))
    elif base == 16:
        dec = _char_class(lambda c: c.isdecimal())
        digit = _union([_range(a, b) for a, b in dec] + [z3.Range("a", "f"), z3.Range("A", "F")])
        pre = z3.Option(z3.Concat(z3.Re("0"), z3.Union(z3.Re("x"), z3.Re("X")), z3.Option(z3.Re("_"))))
    else:
        raise ValueError(base)
    body = z3.Concat(z3.Plus(digit), z3.Star(z3.Concat(z3.Re("_"), z3.Plus(digit))))
    return z3.Concat(ws, sign, pre, body, ws)


@functools.lru_cache(maxsize=None)
def float_literal_re():
    ws = z3.Star(_union(_range(a, b) for a, b in _char_class(lambda c: c.isspace())))
    sign = z3.Option(z3.Union(z3.Re("+"), z3.Re("-")))
    d = z3.Range("0", "9")
    digits = z3.Concat(z3.Plus(d), z3.Star(z3.Concat(z3.Re("_"), z3.Plus(d))))
    mant = z3.Union(z3.Concat(digits, z3.Option(z3.Concat(z3.Re("."), z3.Option(digits)))), z3.Concat(z3.Re("."), digits))
    exp = z3.Option(z3.Concat(z3.Union(z3.Re("e"), z3.Re("E")), sign, digits))
    special = z3.Union(*[z3.Re(s) for s in ("inf", "Inf", "INF", "infinity", "Infinity", "nan", "NaN", "NAN")])
    return z3.Concat(ws, sign, z3.Union(z3.Concat(mant, exp), special), ws)

"""Mechanical extraction of the declarative tables python-pptx is driven by, from the live modules
of the working tree (DESIGN.md 2.1): registered element classes, their child / attribute
declarations (recovered from the closure cells of the generated accessors), enumerations."""
from __future__ import annotations

import functools


@functools.lru_cache(maxsize=1)
def registry():
    """{'a:pPr': <class CT_TextParagraphProperties>, ...} -- everything register_element_cls registered."""
    import pptx  # noqa: F401
    import pptx.oxml as ox
    import pptx.opc.oxml  # noqa: F401  (registers ct:/pr: classes)
    from pptx.oxml.ns import _nsmap

    reg = {}
    for pfx, uri in _nsmap.items():
        ns = ox.element_class_lookup.get_namespace(uri)
        for name, cls in ns.items():
            if name is None:
                continue
            if isinstance(name, bytes):
                name = name.decode()
            reg["%s:%s" % (pfx, name)] = cls
    return reg


def _closure_objs(fn):
    out = []
    for c in getattr(fn, "__closure__", None) or ():
        try:
            out.append(c.cell_contents)
        except ValueError:
            pass
    return out


class AttrDecl:
    def __init__(self, cls, owner, prop_name, decl, prop):
        self.cls = cls
        self.owner = owner
        self.prop_name = prop_name
        self.decl = decl
        self.prop = prop
        self.attr_name = decl._attr_name
        self.simple_type = decl._simple_type
        self.required = type(decl).__name__ == "RequiredAttribute"
        self.default = getattr(decl, "_default", None)

    def __repr__(self):
        return "<AttrDecl %s.%s @%s %s%s>" % (self.owner.__name__, self.prop_name, self.attr_name, self.simple_type.__name__,
                                             " required" if self.required else " default=%r" % (self.default,))


class ChildDecl:
    def __init__(self, cls, owner, prop_name, decl, kind, group=None):
        self.cls = cls
        self.owner = owner
        self.prop_name = prop_name
        self.decl = decl
        self.kind = kind  # ZeroOrOne | ZeroOrMore | OneOrMore | OneAndOnlyOne | Choice
        self.tag = decl._nsptagname
        self.successors = tuple(decl._successors)
        self.group = group  # for Choice: the ZeroOrOneChoice it belongs to
        self.members = tuple(group._member_nsptagnames) if group is not None else ()

    def __repr__(self):
        return "<ChildDecl %s.%s %s %s succ=%d>" % (self.owner.__name__, self.prop_name, self.kind, self.tag, len(self.successors))


def class_decls(cls):
    """(attribute declarations, child declarations) visible on element class `cls` (MRO walked)."""
    from pptx.oxml.xmlchemy import BaseAttribute, ZeroOrOneChoice, _BaseChildElement

    attrs, kids = [], []
    seen = set()
    for k in cls.__mro__:
        for name, v in k.__dict__.items():
            if name in seen:
                continue
            objs = []
            if isinstance(v, property) and v.fget is not None:
                objs = _closure_objs(v.fget)
            elif callable(v) and getattr(v, "__closure__", None):
                objs = _closure_objs(v)
            for o in objs:
                if isinstance(o, BaseAttribute) and isinstance(v, property):
                    if getattr(o, "_prop_name", None) == name:
                        attrs.append(AttrDecl(cls, k, name, o, v))
                        seen.add(name)
                elif isinstance(o, ZeroOrOneChoice) and isinstance(v, property):
                    if getattr(o, "_prop_name", None) == name:
                        seen.add(name)
                        for ch in o._choices:
                            kids.append(ChildDecl(cls, k, ch._prop_name, ch, "Choice", group=o))
                elif isinstance(o, _BaseChildElement) and type(o).__name__ != "Choice":
                    pn = getattr(o, "_prop_name", None)
                    if isinstance(v, property) and pn is not None and name in (pn, pn + "_lst"):
                        key = ("child", pn)
                        if key not in seen:
                            seen.add(key)
                            kids.append(ChildDecl(cls, k, pn, o, type(o).__name__))
    return attrs, kids


@functools.lru_cache(maxsize=1)
def all_decls():
    """{tag: (cls, attrs, kids)} for every registered tag."""
    out = {}
    for tag, cls in sorted(registry().items()):
        a, k = class_decls(cls)
        out[tag] = (cls, a, k)
    return out


@functools.lru_cache(maxsize=1)
def simple_type_classes():
    import inspect

    import pptx.oxml.simpletypes as st

    return {n: c for n, c in vars(st).items() if inspect.isclass(c) and issubclass(c, st.BaseSimpleType) and c.__module__ == st.__name__}


@functools.lru_cache(maxsize=1)
def xml_enums():
    """Every BaseXmlEnum subclass (and alias name) defined in pptx.enum.*"""
    import importlib
    import inspect
    import pkgutil

    import pptx.enum as pe
    from pptx.enum.base import BaseXmlEnum

    out = {}
    for m in pkgutil.iter_modules(pe.__path__):
        mod = importlib.import_module("pptx.enum." + m.name)
        for n, c in vars(mod).items():
            if inspect.isclass(c) and issubclass(c, BaseXmlEnum) and c is not BaseXmlEnum:
                out.setdefault(c, []).append("%s.%s" % (mod.__name__, n))
    return out

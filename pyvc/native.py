"""Helpers to replay solver counter-models against the real, unmodified python-pptx objects."""
from __future__ import annotations

import fractions
import io


def fresh_prs():
    from pptx import Presentation

    return Presentation()


def blank_slide(prs=None):
    prs = prs or fresh_prs()
    layout = prs.slide_layouts[6]
    return prs.slides.add_slide(layout)


def num(v):
    """JSON/fraction model value -> python number."""
    if isinstance(v, fractions.Fraction):
        return float(v) if v.denominator != 1 else int(v)
    if isinstance(v, dict) and "frac" in v:
        n, d = v["frac"]
        return n / d
    return v


def connector_with(x, y, cx, cy, flipH, flipV):
    """A real Connector whose xfrm holds exactly the given state."""
    from pptx.enum.shapes import MSO_CONNECTOR

    slide = blank_slide()
    c = slide.shapes.add_connector(MSO_CONNECTOR.STRAIGHT, 0, 0, 10, 10)
    e = c._element
    e.x, e.y, e.cx, e.cy = x, y, cx, cy
    e.flipH, e.flipV = bool(flipH), bool(flipV)
    return c


def save_reopen(prs):
    from pptx import Presentation

    buf = io.BytesIO()
    prs.save(buf)
    buf.seek(0)
    return Presentation(buf)

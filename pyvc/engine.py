"""Symbolic executor over the Python AST of real functions (DESIGN.md 2.2).

Design points
* Concrete Python values are passed through unchanged and operated on natively; only values that
  depend on a symbolic input are z3 terms (Int / Real / Bool), `SStr` structured strings, `SObj`
  records, `SSeq` lazy symbolic sequences or `SElem` abstract XML elements (elem.py).
* Every symbolic branch forks.  Paths are enumerated by re-execution under a decision prefix, so
  mutable state needs no copying.  Partial operations (division, subscripts, next(), dict lookup,
  int()/float() parsing ...) fork into an exceptional path carrying the real Python exception
  class; whether that exit is allowed is decided by the contract.
* Anything outside the supported subset raises `Unsupported` -- it is never skipped.
"""
from __future__ import annotations

import ast
import builtins
import fractions
import hashlib
import inspect
import numbers
import operator
import textwrap
import types

import z3

# --------------------------------------------------------------------------------------------
# control-flow signals


class Unsupported(Exception):
    """Construct outside the supported subset; the contract is then *undecided* (never a pass)."""


class Infeasible(Exception):
    """Current path condition is unsatisfiable."""


class PyRaise(Exception):
    """A Python exception raised by the code under analysis."""

    def __init__(self, exc_cls, args=(), where=None):
        Exception.__init__(self, "%s%r" % (getattr(exc_cls, "__name__", exc_cls), tuple(args)))
        self.exc_cls = exc_cls
        self.exc_args = tuple(args)
        self.where = where


class PathDone(Exception):
    """The current path ends here (e.g. after the 'invariant preserved' leg of a loop contract);
    its obligations are kept, no postcondition is evaluated."""


class _Return(Exception):
    def __init__(self, value):
        self.value = value


class _Break(Exception):
    pass


class _Continue(Exception):
    pass


# --------------------------------------------------------------------------------------------
# symbolic value classes


class SObj:
    """Record standing for an instance of real class `cls`.

    `fields` are the instance attributes (and the *abstract fields* a contract declares: names
    that are read and written as plain fields even when `cls` defines a property of that name;
    the contract must say which lemma justifies that)."""

    def __init__(self, cls=None, name=None, **fields):
        self.cls = cls
        self.name = name or (cls.__name__ if cls else "obj")
        self.fields = dict(fields)

    def snapshot(self):
        return dict(self.fields)

    def __repr__(self):
        return "<SObj %s %s>" % (self.name, sorted(self.fields))


class BoundMethod:
    def __init__(self, func, self_obj):
        self.func = func
        self.self_obj = self_obj


class GhostFn:
    """Callable supplied by a contract (ghost receiver / summary): h(interp, args, kwargs)."""

    def __init__(self, h, name="ghost"):
        self.h = h
        self.name = name


class GhostProp:
    """Ghost *property* stored as an SObj field: h(interp) is evaluated on every read."""

    def __init__(self, h):
        self.h = h


class SFunc:
    """Closure for a lambda / nested def met during symbolic execution."""

    def __init__(self, node, frame, interp):
        self.node = node
        self.frame = frame
        self.interp = interp


class SExc:
    """Instance of an exception class created by the code under analysis."""

    def __init__(self, cls, args):
        self.cls = cls
        self.args = tuple(args)


class SSeq:
    """Lazy symbolic sequence: symbolic length and a getter from index term to value."""

    def __init__(self, length, getter, name="seq"):
        self.length = length
        self.getter = getter
        self.name = name

    def get(self, i):
        return self.getter(i)


class FmtInt:
    """Canonical decimal rendering of an integer term (`str(n)`, `'%d' % n`); `width` > 0 means
    zero-padded to at least that many digits (`'%04d' % n`)."""

    def __init__(self, term, width=0):
        self.term = term
        self.width = width

    def __repr__(self):
        return "FmtInt(%s)" % self.term


class FmtReal:
    """`str(float)` / `repr(float)` rendering of a real term."""

    def __init__(self, term):
        self.term = term

    def __repr__(self):
        return "FmtReal(%s)" % self.term


class Atom:
    """Opaque symbolic string piece; `alphabet` optionally names the character class it is drawn
    from (a frozenset of characters it can NOT contain is kept in `excludes`)."""

    def __init__(self, name, excludes=frozenset(), nonempty=False, tags=frozenset(), zs=None, case_of=None):
        self.name = name
        self.excludes = frozenset(excludes)
        self.nonempty = nonempty
        self.tags = frozenset(tags)
        self.zs = zs  # optional z3 String term this piece equals
        self.case_of = case_of  # ("upper"|"lower", z3 String term) for str.upper()/lower() results

    def __repr__(self):
        return "Atom(%s)" % self.name


class SStr:
    """Structured symbolic string: concatenation of literal pieces, FmtInt, FmtReal and Atoms."""

    def __init__(self, parts):
        norm = []
        for p in parts:
            if isinstance(p, SStr):
                ps = p.parts
            else:
                ps = (p,)
            for q in ps:
                if isinstance(q, str):
                    if not q:
                        continue
                    if norm and isinstance(norm[-1], str):
                        norm[-1] = norm[-1] + q
                        continue
                norm.append(q)
        self.parts = tuple(norm)

    def __repr__(self):
        return "SStr(%r)" % (self.parts,)

    def is_literal(self):
        return all(isinstance(p, str) for p in self.parts)

    def z3(self):
        """z3 String term equal to this string, or None when some piece has no z3 counterpart."""
        ts = []
        for p in self.parts:
            if isinstance(p, str):
                ts.append(z3.StringVal(p))
            elif isinstance(p, Atom) and p.zs is not None:
                ts.append(p.zs)
            elif isinstance(p, FmtInt) and not p.width:
                t = p.term
                ts.append(z3.If(t >= 0, z3.IntToStr(t), z3.Concat(z3.StringVal("-"), z3.IntToStr(-t))))
            else:
                return None
        if not ts:
            return z3.StringVal("")
        return ts[0] if len(ts) == 1 else z3.Concat(*ts)

    def literal(self):
        return "".join(self.parts)


DIGITS = frozenset("0123456789")


def _piece_alphabet_excludes(piece, ch):
    """True if `piece` certainly does not contain character `ch`."""
    if isinstance(piece, str):
        return ch not in piece
    if isinstance(piece, FmtInt):
        return ch not in "-0123456789"
    if isinstance(piece, FmtReal):
        return ch not in "-+.0123456789einfa"
    if isinstance(piece, Atom):
        return ch in piece.excludes
    return False


def is_z3(v):
    return isinstance(v, z3.ExprRef)


def is_symscalar(v):
    return isinstance(v, (z3.ExprRef, SStr, SSeq))


def deep_concrete(v):
    if isinstance(v, (z3.ExprRef, SStr, SSeq, SObj, BoundMethod, SFunc, SExc, GhostFn, BoundStrMethod)):
        return False
    if getattr(type(v), "__pyvc_symbolic__", False):
        return False
    if isinstance(v, (list, tuple, set, frozenset)):
        return all(deep_concrete(x) for x in v)
    if isinstance(v, dict):
        return all(deep_concrete(k) and deep_concrete(x) for k, x in v.items())
    return True


def to_real(v):
    if is_z3(v):
        if z3.is_real(v):
            return v
        if z3.is_int(v):
            return z3.ToReal(v)
        if z3.is_bool(v):
            return z3.If(v, z3.RealVal(1), z3.RealVal(0))
    if isinstance(v, bool):
        return z3.RealVal(int(v))
    if isinstance(v, int):
        return z3.RealVal(int.__index__(v))  # int subclasses (enum members, Length) may override __str__
    if isinstance(v, float):
        if v != v or v in (float("inf"), float("-inf")):
            raise Unsupported("non-finite float constant in real arithmetic")
        fr = fractions.Fraction(v)
        return z3.RealVal(fr.numerator) / z3.RealVal(fr.denominator)
    raise Unsupported("cannot convert %r to Real" % (v,))


def to_int(v):
    if is_z3(v):
        if z3.is_int(v):
            return v
        if z3.is_bool(v):
            return z3.If(v, z3.IntVal(1), z3.IntVal(0))
    if isinstance(v, bool):
        return z3.IntVal(int(v))
    if isinstance(v, int):
        return z3.IntVal(int.__index__(v))
    raise Unsupported("cannot convert %r to Int" % (v,))


def to_bool(v):
    if is_z3(v) and z3.is_bool(v):
        return v
    if isinstance(v, bool):
        return z3.BoolVal(v)
    raise Unsupported("cannot convert %r to Bool" % (v,))


def is_num(v):
    return (is_z3(v) and (z3.is_int(v) or z3.is_real(v) or z3.is_bool(v))) or (
        isinstance(v, (int, float)) and not isinstance(v, str)
    )


def _nonfinite(v):
    return isinstance(v, float) and (v != v or v in (float("inf"), float("-inf")))


def is_intlike(v):
    return (is_z3(v) and (z3.is_int(v) or z3.is_bool(v))) or isinstance(v, int)


def py_floor_div(a, b):
    """Python floor division on Int terms."""
    a, b = to_int(a), to_int(b)
    if z3.is_int_value(b):
        bv = b.as_long()
        if bv > 0:
            return a / b
        if bv < 0:
            return (-a) / z3.IntVal(-bv)
    return z3.If(b > 0, a / b, (-a) / (-b))


def py_mod(a, b):
    a, b = to_int(a), to_int(b)
    return a - b * py_floor_div(a, b)


def real_floor(x):
    return z3.ToInt(x)


def real_trunc(x):
    x = to_real(x)
    return z3.If(x >= 0, z3.ToInt(x), -z3.ToInt(-x))


def real_round_half_even(x):
    x = to_real(x)
    f = z3.ToInt(x)
    d = x - z3.ToReal(f)
    half = z3.RealVal(1) / z3.RealVal(2)
    return z3.If(d < half, f, z3.If(d > half, f + 1, z3.If(f % 2 == 0, f, f + 1)))


# --------------------------------------------------------------------------------------------
# source access (the verified text is the code that runs)

_AST_CACHE = {}
FUNCTIONS_SEEN = {}  # qualified name -> {file, line, sha256}


def unwrap_function(fn):
    """Return the plain function behind property / classmethod / staticmethod / bound method."""
    if isinstance(fn, property):
        raise Unsupported("pass fget/fset explicitly")
    if isinstance(fn, (classmethod, staticmethod)):
        fn = fn.__func__
    if isinstance(fn, types.MethodType):
        fn = fn.__func__
    return fn


def function_ast(fn):
    fn = unwrap_function(fn)
    code = getattr(fn, "__code__", None)
    if code is None:
        raise Unsupported("no Python source for %r" % (fn,))
    key = code
    if key in _AST_CACHE:
        return _AST_CACHE[key]
    try:
        src = inspect.getsource(fn)
    except (OSError, TypeError) as e:
        raise Unsupported("no source for %r: %s" % (fn, e))
    src = textwrap.dedent(src)
    tree = ast.parse(src)
    node = tree.body[0]
    if isinstance(node, ast.Expr) and isinstance(node.value, ast.Lambda):
        node = node.value
    if not isinstance(node, (ast.FunctionDef, ast.Lambda)):
        # decorated lambdas etc.
        for n in ast.walk(tree):
            if isinstance(n, (ast.FunctionDef, ast.Lambda)):
                node = n
                break
    qn = "%s:%s" % (fn.__module__, fn.__qualname__)
    FUNCTIONS_SEEN["%s@L%d" % (qn, code.co_firstlineno)] = {
        "file": code.co_filename,
        "line": code.co_firstlineno,
        "sha256": hashlib.sha256(src.encode()).hexdigest()[:16],
    }
    _AST_CACHE[key] = (node, qn)
    return node, qn


# --------------------------------------------------------------------------------------------
# path / exploration


class Obligation:
    __slots__ = ("name", "claim", "pc", "kind", "info", "status", "backend", "time", "model")

    def __init__(self, name, claim, pc, kind="post", info=None):
        self.name = name
        self.claim = claim
        self.pc = list(pc)
        self.kind = kind
        self.info = info or {}
        self.status = None
        self.backend = None
        self.time = 0.0
        self.model = None


class Path:
    def __init__(self, prefix, solver_timeout_ms=4000):
        self.prefix = list(prefix)
        self.taken = []
        self.pc = []
        self.pending = []
        self.n = 0
        self.obligations = []
        self.assumed = set()
        self.notes = []
        self.inputs = {}  # name -> z3 const (for model extraction)
        self.timeout = solver_timeout_ms
        self.inlined = set()
        self.feas_checks = 0
        self.fresh_log = None
        self.ghost = {}  # ghost objects created by models (sorted views ...), for lemma hints in contracts

    # -- fresh symbols (deterministic across re-execution) --
    def fresh(self, base, sort):
        self.n += 1
        c = z3.Const("%s!%d" % (base, self.n), sort)
        if self.fresh_log is not None:
            self.fresh_log.append(c)
        return c

    def feasible(self, extra):
        s = z3.Solver()
        cs = list(self.pc) + list(extra)
        if any(_contains_quantifier(c) for c in cs):
            # quantified path condition: only ask whether instantiation refutes it (cheap); never wait for a model
            s.set("timeout", min(self.timeout, 1500))
            s.set("smt.mbqi", False)
            s.set("smt.auto_config", False)
        else:
            s.set("timeout", self.timeout)
        for c in cs:
            s.add(c)
        self.feas_checks += 1
        r = s.check()
        return r != z3.unsat

    def assume(self, cond):
        cond = z3.simplify(to_bool(cond))
        if z3.is_true(cond):
            return
        self.pc.append(cond)

    def fork(self, conds):
        """Choose one of mutually exclusive, jointly exhaustive alternatives `conds`."""
        conds = [z3.simplify(to_bool(c)) for c in conds]
        live = [i for i, c in enumerate(conds) if not z3.is_false(c)]
        if len(live) == 1 and z3.is_true(conds[live[0]]):
            return live[0]
        k = len(self.taken)
        if k < len(self.prefix):
            choice = self.prefix[k]
        else:
            feas = [i for i in live if self.feasible([conds[i]])]
            if not feas:
                raise Infeasible()
            choice = feas[0]
            for other in feas[1:]:
                self.pending.append(self.taken + [other])
        self.taken.append(choice)
        if not z3.is_true(conds[choice]):
            self.pc.append(conds[choice])
        return choice

    def branch(self, cond):
        if isinstance(cond, bool):
            return cond
        cond = z3.simplify(to_bool(cond))
        if z3.is_true(cond):
            return True
        if z3.is_false(cond):
            return False
        return self.fork([cond, z3.Not(cond)]) == 0

    def oblige(self, name, claim, kind="post", info=None):
        self.obligations.append(Obligation(name, to_bool(claim), self.pc, kind, info))

    def undecided(self, name, why):
        """An obligation the generator cannot express (outside its subset): reported as unknown."""
        self.obligations.append(Obligation(name, z3.BoolVal(True), self.pc, "undecidable", {"why": why}))


_QCACHE = {}


def _contains_quantifier(e):
    k = e.get_id()
    if k in _QCACHE:
        return _QCACHE[k]
    seen = set()
    todo = [e]
    found = False
    while todo:
        x = todo.pop()
        if z3.is_quantifier(x):
            found = True
            break
        i = x.get_id()
        if i in seen:
            continue
        seen.add(i)
        if z3.is_app(x):
            todo.extend(x.children())
    _QCACHE[k] = found
    return found


class Outcome:
    def __init__(self, path, value=None, exc=None, extra=None):
        self.path = path
        self.value = value
        self.exc = exc  # PyRaise or None
        self.extra = extra or {}

    @property
    def raised(self):
        return self.exc is not None

    def raised_cls(self):
        return self.exc.exc_cls if self.exc is not None else None


def explore(thunk, max_paths=4000, solver_timeout_ms=4000):
    """Enumerate all feasible paths of `thunk(path)`.  Returns list of (path, result)."""
    work = [[]]
    results = []
    while work:
        prefix = work.pop()
        p = Path(prefix, solver_timeout_ms)
        try:
            res = thunk(p)
        except Infeasible:
            work.extend(p.pending)
            continue
        except PathDone:
            res = None
        work.extend(p.pending)
        results.append((p, res))
        if len(results) > max_paths:
            raise Unsupported("more than %d paths" % max_paths)
    return results


# --------------------------------------------------------------------------------------------
# interpreter


class Frame:
    def __init__(self, fn, locals_, node, qn):
        self.fn = fn
        self.locals = locals_
        self.globals = getattr(fn, "__globals__", {}) if fn is not None else {}
        self.node = node
        self.qn = qn
        self.cells = {}
        self.loop_ordinal = 0
        if fn is not None and getattr(fn, "__closure__", None):
            for name, cell in zip(fn.__code__.co_freevars, fn.__closure__):
                try:
                    self.cells[name] = cell.cell_contents
                except ValueError:
                    pass
        self.parent = None  # for SFunc closures


_MISSING = object()

MODELS = {}  # id-key -> handler(interp, args, kwargs)
MODEL_OBJS = {}  # keep objects alive
ATTR_MODELS = {}  # (type-tag, attrname) -> handler


def model(obj):
    """Decorator: register a model (an ASSUMED or summarising contract) for the real callable."""

    def deco(h):
        MODELS[id(obj)] = h
        MODEL_OBJS[id(obj)] = obj
        return h

    return deco


PATTERN_MODELS = {}  # regex pattern text -> handler(it, compiled_pattern, string) for Pattern.match on symbolic strings


def _pattern_match_dispatch(it, func, a, k):
    pat = func.__self__
    s = a[0]
    if isinstance(s, str):
        return it.native(func, a, k)
    h = PATTERN_MODELS.get(pat.pattern)
    if h is None:
        raise Unsupported("re.match of %r on a symbolic string has no assumed contract" % pat.pattern)
    return h(it, pat, s)


MODELS_BY_NAME = {"Pattern.match": _pattern_match_dispatch}  # qualified name of a builtin method (e.g. 'datetime.strptime', 'Pattern.match') -> handler


def lookup_model(func):
    h = MODELS.get(id(func))
    if h is not None:
        return h
    qn = getattr(func, "__qualname__", None)
    if qn in MODELS_BY_NAME and isinstance(func, (types.BuiltinFunctionType, types.BuiltinMethodType)):
        return lambda it, a, k, func=func, h=MODELS_BY_NAME[qn]: h(it, func, a, k)
    # bound builtin methods / classmethods are recreated on each access
    f2 = getattr(func, "__func__", None)
    if f2 is not None:
        return MODELS.get(id(f2))
    return None


class Interp:
    MAX_DEPTH = 40

    def __init__(self, path, loop_specs=None, summaries=None, abstract_calls=None):
        self.path = path
        self.depth = 0
        self.loop_specs = loop_specs or {}
        self.summaries = summaries or {}
        self.stack = []
        self.active = []
        self.unsupported_note = None

    # ---------------------------------------------------------------- calling
    def call_function(self, fn, args, kwargs=None):
        """Symbolically execute real function `fn` (its real source) on `args`."""
        kwargs = kwargs or {}
        fn = unwrap_function(fn)
        node, qn = function_ast(fn)
        h = self.summaries.get(qn)
        if h is not None and self.depth > 0:
            return h(self, list(args), kwargs)
        self.path.inlined.add(qn)
        if self.depth > self.MAX_DEPTH:
            raise Unsupported("inline depth exceeded at %s" % qn)
        frame = Frame(fn, {}, node, qn)
        self.bind_args(frame, node.args, fn, args, kwargs)
        return self.run_body(frame, node)

    def run_body(self, frame, node):
        self.depth += 1
        self.stack.append(frame.qn)
        try:
            if isinstance(node, ast.Lambda):
                return self.eval(node.body, frame)
            if _is_generator(node):
                return self.run_generator(frame, node)
            try:
                self.exec_block(node.body, frame)
            except _Return as r:
                return r.value
            return None
        finally:
            self.stack.pop()
            self.depth -= 1

    def run_generator(self, frame, node):
        """Generators are run to completion and give the finite list they yield (DESIGN 2.2)."""
        out = []
        mk = self.summaries.get("<option>yield_log")
        if mk is not None:
            out = mk(frame.qn)
            if out is None:
                out = []
            else:
                self.path.ghost.setdefault("ghost_state", []).append(out)
        frame.locals["__yield__"] = out
        try:
            self.exec_block(node.body, frame)
        except _Return:
            pass
        if "__yield_result__" in frame.locals:
            if out:
                raise Unsupported("generator yields outside its filter loop")
            return frame.locals["__yield_result__"]
        return out

    def bind_args(self, frame, a, fn, args, kwargs):
        args = list(args)
        kwargs = dict(kwargs)
        params = [p.arg for p in getattr(a, "posonlyargs", [])] + [p.arg for p in a.args]
        defaults = list(a.defaults)
        ndef = len(defaults)
        npar = len(params)
        defvals = getattr(fn, "__defaults__", None) if fn is not None else None
        for i, name in enumerate(params):
            if i < len(args):
                frame.locals[name] = args[i]
            elif name in kwargs:
                frame.locals[name] = kwargs.pop(name)
            else:
                di = i - (npar - ndef)
                if di >= 0:
                    if defvals is not None and len(defvals) == ndef:
                        frame.locals[name] = defvals[di]
                    else:
                        frame.locals[name] = self.eval(defaults[di], frame)
                else:
                    raise PyRaise(TypeError, ("missing argument %s" % name,))
        extra = args[npar:]
        if a.vararg is not None:
            frame.locals[a.vararg.arg] = tuple(extra)
        elif extra:
            raise PyRaise(TypeError, ("too many positional arguments",))
        kwdefs = getattr(fn, "__kwdefaults__", None) or {} if fn is not None else {}
        for p, d in zip(a.kwonlyargs, a.kw_defaults):
            if p.arg in kwargs:
                frame.locals[p.arg] = kwargs.pop(p.arg)
            elif p.arg in kwdefs:
                frame.locals[p.arg] = kwdefs[p.arg]
            elif d is not None:
                frame.locals[p.arg] = self.eval(d, frame)
            else:
                raise PyRaise(TypeError, ("missing kw argument %s" % p.arg,))
        if a.kwarg is not None:
            frame.locals[a.kwarg.arg] = kwargs
        elif kwargs:
            raise PyRaise(TypeError, ("unexpected keyword arguments %s" % sorted(kwargs),))

    def call(self, func, args, kwargs=None):
        kwargs = kwargs or {}
        # symbolic-self bound method
        if isinstance(func, BoundMethod):
            return self.call(func.func, [func.self_obj] + list(args), kwargs)
        if isinstance(func, GhostFn):
            return func.h(self, list(args), kwargs)
        if isinstance(func, BoundStrMethod):
            return call_str_method(self, func, list(args), kwargs)
        if func is set and not args and self.summaries.get("<option>symbolic_sets"):
            from . import gsets

            mk = self.summaries.get("<option>symbolic_sets")
            g = mk() if callable(mk) else gsets.GSet("set%d" % len(self.path.ghost.setdefault("ghost_state", [])))
            self.path.ghost.setdefault("ghost_state", []).append(g)
            return g
        if isinstance(func, type) and func is not dict and issubclass(func, dict) and not args and self.summaries.get("<option>ghost_dicts") is not None:
            return self.instantiate(func, args, kwargs)
        if isinstance(func, SFunc):
            akey = "<sfunc>%s.<locals>.%s" % (func.frame.qn, getattr(func.node, "name", "<lambda>"))
            ah = self.summaries.get(akey)
            if ah is not None:
                return ah(self, list(args), kwargs)
            rkey = "<recursive>%s.<locals>.%s" % (func.frame.qn, getattr(func.node, "name", "<lambda>"))
            rh = self.summaries.get(rkey)
            if rh is not None:
                if rkey in self.active:
                    return rh(self, list(args), kwargs)
                self.active.append(rkey)
                try:
                    return self._call_sfunc(func, args, kwargs)
                finally:
                    self.active.pop()
            return self._call_sfunc(func, args, kwargs)
        if False:
            fr = Frame(None, {}, func.node, func.frame.qn + ".<locals>")
            fr.globals = func.frame.globals
            fr.cells = func.frame.cells
            fr.parent = func.frame
            fr.fn = func.frame.fn
            self.bind_args(fr, func.node.args, None, args, kwargs)
            return self.run_body(fr, func.node)
        h = lookup_model(func)
        if h is not None:
            return h(self, list(args), kwargs)
        # a contract-supplied summary takes precedence over everything else
        if self.summaries and isinstance(func, (types.MethodType, types.FunctionType)):
            f0 = func.__func__ if isinstance(func, types.MethodType) else func
            qn0 = "%s:%s" % (getattr(f0, "__module__", "?"), getattr(f0, "__qualname__", "?"))
            h0 = self.summaries.get(qn0)
            if h0 is not None:
                a0 = ([func.__self__] if isinstance(func, types.MethodType) else []) + list(args)
                return h0(self, a0, kwargs)
        # closed terms (every argument concrete) are evaluated by the real code itself
        if isinstance(func, (types.MethodType, types.FunctionType)) or (isinstance(func, type) and not issubclass(func, BaseException)):
            if deep_concrete(list(args)) and deep_concrete(kwargs) and deep_concrete(getattr(func, "__self__", None)):
                return self.native(func, args, kwargs)
        if isinstance(func, types.MethodType):
            # real bound method: classmethod on a real class, or method on a real instance
            return self.call(func.__func__, [func.__self__] + list(args), kwargs)
        if isinstance(func, types.FunctionType):
            return self.call_function(func, args, kwargs)
        if isinstance(func, type):
            return self.instantiate(func, args, kwargs)
        if isinstance(func, (types.BuiltinFunctionType, types.BuiltinMethodType, types.MethodDescriptorType,
                             types.WrapperDescriptorType, types.MethodWrapperType)) or callable(func):
            if deep_concrete(args) and deep_concrete(kwargs):
                return self.native(func, args, kwargs)
            # builtin method of a concrete container holding symbolic items (list.append ...)
            owner = getattr(func, "__self__", None)
            if isinstance(owner, (list, dict, set)) and not isinstance(owner, type):
                return self.native(func, args, kwargs)
            raise Unsupported("call of %r with symbolic arguments has no model" % (func,))
        raise Unsupported("cannot call %r" % (func,))

    def _call_sfunc(self, func, args, kwargs):
        fr = Frame(None, {}, func.node, func.frame.qn + ".<locals>")
        fr.globals = func.frame.globals
        fr.cells = func.frame.cells
        fr.parent = func.frame
        fr.fn = func.frame.fn
        self.bind_args(fr, func.node.args, None, args, kwargs)
        return self.run_body(fr, func.node)

    def native(self, func, args, kwargs):
        if any(getattr(type(a), "__pyvc_symbolic__", False) for a in list(args) + list(kwargs.values())):
            raise Unsupported("native call of %s on a ghost object" % getattr(func, "__name__", func))
        try:
            return func(*args, **kwargs)
        except (Unsupported, Infeasible, PyRaise, _Return, _Break, _Continue):
            raise
        except Exception as e:  # the real exception the real callee raises
            raise PyRaise(type(e), e.args)

    def instantiate(self, cls, args, kwargs):
        if isinstance(cls, type) and issubclass(cls, BaseException):
            return SExc(cls, args)
        if cls in (int, float, str, bool, tuple, list, dict, set, frozenset):
            h = lookup_model(cls)
            if h is not None:
                return h(self, list(args), kwargs)
        if deep_concrete(args) and deep_concrete(kwargs) and cls.__module__ in ("builtins", "collections", "datetime"):
            return self.native(cls, args, kwargs)
        mk = self.summaries.get("<option>ghost_dicts")
        if mk is not None and isinstance(cls, type) and issubclass(cls, dict) and cls is not dict and len(args) <= 1:
            g = mk(cls.__name__)
            if g is not None and args:
                from . import gsets

                g = gsets.dict_from_pairs(self, g, args[0])
            if g is not None:
                # dict.__init__(**kwargs) stores the keys as given (it does not go through an overridden __setitem__)
                for kk, vv in kwargs.items():
                    g.sym_setitem(self, kk, vv)
                self.path.ghost.setdefault("ghost_state", []).append(g)
                return SObj(cls, cls.__name__, __payload__=g)
        # user class: __new__ then __init__, on the real sources
        new = inspect.getattr_static(cls, "__new__", None)
        obj = None
        if new is not None and isinstance(new, staticmethod) and isinstance(new.__func__, types.FunctionType):
            obj = self.call_function(new.__func__, [cls] + list(args), kwargs)
            if not (isinstance(obj, SObj) and obj.cls is not None and issubclass(obj.cls, cls)):
                return obj
        elif new is not None and isinstance(new, types.FunctionType):
            obj = self.call_function(new, [cls] + list(args), kwargs)
            if not (isinstance(obj, SObj) and obj.cls is not None and issubclass(obj.cls, cls)):
                return obj
        if obj is None:
            obj = SObj(cls)
        init = _find_in_mro(cls, "__init__")
        if isinstance(init, types.FunctionType):
            self.call_function(init, [obj] + list(args), kwargs)
        return obj

    # ---------------------------------------------------------------- statements
    def exec_block(self, stmts, frame):
        for s in stmts:
            self.exec(s, frame)

    def exec(self, node, frame):
        m = getattr(self, "x_" + type(node).__name__, None)
        if m is None:
            raise Unsupported("statement %s at %s:%d" % (type(node).__name__, frame.qn, getattr(node, "lineno", 0)))
        return m(node, frame)

    def x_Expr(self, node, frame):
        if isinstance(node.value, ast.Constant):
            return  # docstring
        if isinstance(node.value, (ast.Yield, ast.YieldFrom)):
            return self.do_yield(node.value, frame)
        self.eval(node.value, frame)

    def do_yield(self, node, frame):
        out = frame.locals.get("__yield__")
        if out is None:
            raise Unsupported("yield outside generator frame")
        if isinstance(node, ast.Yield):
            out.append(self.eval(node.value, frame) if node.value is not None else None)
        else:
            it = self.eval(node.value, frame)
            if it is out:
                return  # the callee generator logged into the same ghost yield log
            out.extend(self.iterate(it))

    def x_Pass(self, node, frame):
        pass

    def x_Return(self, node, frame):
        raise _Return(self.eval(node.value, frame) if node.value is not None else None)

    def x_Assign(self, node, frame):
        v = self.eval(node.value, frame)
        for t in node.targets:
            self.assign(t, v, frame)

    def x_AnnAssign(self, node, frame):
        if node.value is not None:
            self.assign(node.target, self.eval(node.value, frame), frame)

    def x_AugAssign(self, node, frame):
        cur = self.eval(_load(node.target), frame)
        v = self.binop(node.op, cur, self.eval(node.value, frame))
        self.assign(node.target, v, frame)

    def assign(self, target, v, frame):
        if isinstance(target, ast.Name):
            self.set_name(frame, target.id, v)
        elif isinstance(target, (ast.Tuple, ast.List)):
            items = self.iterate(v)
            if any(isinstance(e, ast.Starred) for e in target.elts):
                raise Unsupported("starred assignment")
            if len(items) != len(target.elts):
                raise PyRaise(ValueError, ("unpack length mismatch",))
            for e, x in zip(target.elts, items):
                self.assign(e, x, frame)
        elif isinstance(target, ast.Attribute):
            obj = self.eval(target.value, frame)
            self.setattr(obj, target.attr, v)
        elif isinstance(target, ast.Subscript):
            obj = self.eval(target.value, frame)
            idx = self.eval_slice(target.slice, frame)
            self.setitem(obj, idx, v)
        else:
            raise Unsupported("assignment target %s" % type(target).__name__)

    def set_name(self, frame, name, v):
        f = frame
        # nonlocal writes are not supported (never needed so far): always bind locally
        f.locals[name] = v

    def x_If(self, node, frame):
        if self.truth(self.eval(node.test, frame)):
            self.exec_block(node.body, frame)
        else:
            self.exec_block(node.orelse, frame)

    def x_Raise(self, node, frame):
        if node.exc is None:
            cur = frame.locals.get("__exc__")
            if cur is None:
                raise Unsupported("bare raise outside except")
            raise cur
        e = self.eval(node.exc, frame)
        if isinstance(e, type) and issubclass(e, BaseException):
            raise PyRaise(e, (), where=(frame.qn, node.lineno))
        if isinstance(e, SExc):
            raise PyRaise(e.cls, e.args, where=(frame.qn, node.lineno))
        if isinstance(e, BaseException):
            raise PyRaise(type(e), e.args, where=(frame.qn, node.lineno))
        raise Unsupported("raise of %r" % (e,))

    def x_Assert(self, node, frame):
        if not self.truth(self.eval(node.test, frame)):
            raise PyRaise(AssertionError, (), where=(frame.qn, node.lineno))

    def x_Try(self, node, frame):
        try:
            try:
                self.exec_block(node.body, frame)
            except PyRaise as pr:
                for h in node.handlers:
                    if h.type is None:
                        match = True
                    else:
                        t = self.eval(h.type, frame)
                        ts = t if isinstance(t, tuple) else (t,)
                        match = any(isinstance(x, type) and _issub(pr.exc_cls, x) for x in ts)
                    if match:
                        if h.name:
                            frame.locals[h.name] = SExc(pr.exc_cls, pr.exc_args)
                        saved = frame.locals.get("__exc__")
                        frame.locals["__exc__"] = pr
                        try:
                            self.exec_block(h.body, frame)
                        finally:
                            frame.locals["__exc__"] = saved
                        break
                else:
                    raise
            else:
                self.exec_block(node.orelse, frame)
        finally:
            if node.finalbody:
                self.exec_block(node.finalbody, frame)

    def x_Break(self, node, frame):
        raise _Break()

    def x_Continue(self, node, frame):
        raise _Continue()

    def x_Delete(self, node, frame):
        for t in node.targets:
            if isinstance(t, ast.Name):
                frame.locals.pop(t.id, None)
            elif isinstance(t, ast.Subscript):
                obj = self.eval(t.value, frame)
                idx = self.eval_slice(t.slice, frame)
                self.delitem(obj, idx)
            elif isinstance(t, ast.Attribute):
                obj = self.eval(t.value, frame)
                if isinstance(obj, SObj):
                    obj.fields.pop(t.attr, None)
                else:
                    raise Unsupported("del attribute on %r" % (obj,))
            else:
                raise Unsupported("del target")

    def x_FunctionDef(self, node, frame):
        if node.decorator_list:
            raise Unsupported("decorated nested function")
        frame.locals[node.name] = SFunc(node, frame, self)

    def x_Import(self, node, frame):
        raise Unsupported("import inside function")

    def x_ImportFrom(self, node, frame):
        import importlib

        mod = importlib.import_module(node.module)
        for a in node.names:
            frame.locals[a.asname or a.name] = getattr(mod, a.name)

    def x_Global(self, node, frame):
        raise Unsupported("global statement")

    def x_Nonlocal(self, node, frame):
        raise Unsupported("nonlocal statement")

    def x_With(self, node, frame):
        if len(node.items) != 1:
            raise Unsupported("with statement with several items at %s:%d" % (frame.qn, node.lineno))
        item = node.items[0]
        mgr = self.eval(item.context_expr, frame)
        if deep_concrete(mgr):
            raise Unsupported("with statement over a concrete context manager at %s:%d" % (frame.qn, node.lineno))
        v = self.call(self.getattr(mgr, "__enter__"), [])
        if item.optional_vars is not None:
            self.assign(item.optional_vars, v, frame)
        try:
            self.exec_block(node.body, frame)
        except PyRaise as e:
            r = self.call(self.getattr(mgr, "__exit__"), [e.exc_cls, e, None])
            if r is True:
                return
            raise
        except (_Return, _Break, _Continue):
            self.call(self.getattr(mgr, "__exit__"), [None, None, None])
            raise
        self.call(self.getattr(mgr, "__exit__"), [None, None, None])

    # -- loops --
    def x_For(self, node, frame):
        ordinal = frame.loop_ordinal
        frame.loop_ordinal += 1
        it = self.resolve_iterable(self.eval(node.iter, frame))
        if type(it).__name__ == "SSeqGen":
            it = it.filtered  # a generator expression over a symbolic sequence is iterated as that (lazy) sequence
        spec = self.loop_specs.get((frame.qn, ordinal))
        if spec is not None:
            return spec(self, node, frame, it)
        if "__yield__" in frame.locals and (type(it).__name__ == "SFiltered" or (isinstance(it, SSeq) and not z3.is_int_value(z3.simplify(to_int(it.length))))):
            # generator whose body is a filter loop over a symbolic sequence: the generator *is* the filtered subsequence
            from . import seqs

            if frame.locals["__yield__"]:
                raise Unsupported("generator yields before its filter loop")
            frame.locals["__yield_result__"] = seqs.generator_filter_loop(self, node, frame, it)
            return
        if hasattr(it, "sym_lazy_filter") and isinstance(node.target, ast.Name) and len(node.body) == 1 and isinstance(node.body[0], ast.If) \
                and not node.body[0].orelse and node.body[0].body and isinstance(node.body[0].body[-1], ast.Break) \
                and not any(isinstance(n_, (ast.Continue, ast.Break)) for st_ in node.body[0].body[:-1] for n_ in ast.walk(st_)):
            # search loop `for c in elem: if cond(c): ...; break` (no other exit): the first child, in document order, satisfying cond --
            # the same rule as `next((c for c in elem if cond(c)), None)`
            comp = ast.comprehension(target=node.target, iter=node.iter, ifs=[node.body[0].test], is_async=0)
            genexp = ast.GeneratorExp(elt=ast.Name(id=node.target.id, ctx=ast.Load()), generators=[comp])
            ast.copy_location(genexp, node)
            ast.fix_missing_locations(genexp)
            sentinel = object()
            first = it.sym_lazy_filter(self, genexp, comp, frame).sym_next(self, [sentinel])
            if first is sentinel:
                self.exec_block(node.orelse, frame)
                return
            self.assign(node.target, first, frame)
            self.exec_block(node.body[0].body[:-1], frame)
            return
        items = self.iterate(it)
        broke = False
        for x in items:
            self.assign(node.target, x, frame)
            try:
                self.exec_block(node.body, frame)
            except _Break:
                broke = True
                break
            except _Continue:
                continue
        if not broke:
            self.exec_block(node.orelse, frame)

    def x_While(self, node, frame):
        ordinal = frame.loop_ordinal
        frame.loop_ordinal += 1
        spec = self.loop_specs.get((frame.qn, ordinal))
        if spec is not None:
            return spec(self, node, frame, None)
        n = 0
        while True:
            c = self.eval(node.test, frame)
            if is_z3(c) and not (z3.is_true(z3.simplify(c)) or z3.is_false(z3.simplify(c))):
                raise Unsupported("while loop with symbolic guard needs an invariant (%s loop %d)" % (frame.qn, ordinal))
            if not self.truth(c):
                break
            n += 1
            if n > 10000:
                raise Unsupported("concrete while loop does not terminate within 10000 iterations")
            try:
                self.exec_block(node.body, frame)
            except _Break:
                return
            except _Continue:
                continue
        self.exec_block(node.orelse, frame)

    def resolve_iterable(self, it):
        if isinstance(it, SObj) and "__iter__" in it.fields:
            return self.resolve_iterable(self.call(it.fields["__iter__"], []))
        if isinstance(it, SObj) and it.cls is not None:
            f = _find_in_mro(it.cls, "__iter__")
            import collections.abc as _abc

            if f is _abc.Sequence.__dict__.get("__iter__"):
                # collections.abc.Sequence mixin: iterate by index up to __len__ (its documented behaviour)
                ln = _find_in_mro(it.cls, "__len__")
                gi = _find_in_mro(it.cls, "__getitem__")
                if isinstance(ln, types.FunctionType) and isinstance(gi, types.FunctionType):
                    n = self.call_function(ln, [it])
                    if is_z3(n):
                        n = z3.simplify(n)
                        if not z3.is_int_value(n):
                            raise Unsupported("Sequence mixin iteration with symbolic length")
                        n = n.as_long()
                    return [self.call_function(gi, [it, i]) for i in range(n)]
            if isinstance(f, types.FunctionType):
                return self.resolve_iterable(self.call_function(f, [it]))
        return it

    def iterate(self, it):
        """Concrete-length iteration."""
        if isinstance(it, (list, tuple)):
            return list(it)
        if isinstance(it, SObj):
            r = self.resolve_iterable(it)
            if r is not it:
                return self.iterate(r)
        if isinstance(it, (dict, set, frozenset, range, str)):
            return list(it)
        if isinstance(it, SStr) and it.is_literal():
            return list(it.literal())
        if isinstance(it, SStr) and it.z3() is not None:
            # iteration over a symbolic string whose length is fixed by the path condition
            zs = it.z3()
            sol = z3.Solver()
            sol.set("timeout", 4000)
            sol.add(*self.path.pc)
            if sol.check() == z3.sat:
                k = sol.model().eval(z3.Length(zs), model_completion=True).as_long()
                sol.add(z3.Length(zs) != k)
                if sol.check() == z3.unsat:
                    return [SStr([Atom("%s[%d]" % (it.parts[0].name if isinstance(it.parts[0], Atom) else "s", i), nonempty=True,
                                       tags={"char"}, zs=z3.SubString(zs, i, 1))]) for i in range(k)]
            raise Unsupported("iteration over symbolic string of unconstrained length")
        if isinstance(it, SSeq):
            ln = z3.simplify(to_int(it.length))
            if z3.is_int_value(ln):
                return [it.get(z3.IntVal(i)) for i in range(ln.as_long())]
            raise Unsupported("iteration over symbolic-length sequence %s needs a loop contract" % it.name)
        if hasattr(it, "sym_iter"):
            return it.sym_iter(self)
        if isinstance(it, (types.GeneratorType, map, zip, filter, enumerate, reversed)) or hasattr(it, "__iter__") and deep_concrete(it):
            return list(it)
        if isinstance(it, SObj):
            f = _find_in_mro(it.cls, "__iter__") if it.cls else None
            if f is not None:
                return self.iterate(self.call_function(f, [it]))
        raise Unsupported("cannot iterate %r" % (it,))

    # ---------------------------------------------------------------- expressions
    def eval(self, node, frame):
        m = getattr(self, "e_" + type(node).__name__, None)
        if m is None:
            raise Unsupported("expression %s at %s:%d" % (type(node).__name__, frame.qn, getattr(node, "lineno", 0)))
        return m(node, frame)

    def e_Constant(self, node, frame):
        return node.value

    def e_Name(self, node, frame):
        name = node.id
        f = frame
        while f is not None:
            if name in f.locals:
                return f.locals[name]
            if name in f.cells:
                return f.cells[name]
            f = f.parent
        if name in frame.globals:
            if self.summaries:
                ov = self.summaries.get("<global>%s:%s" % (frame.globals.get("__name__", "?"), name), _MISSING)
                if ov is not _MISSING:
                    # proof device: a module constant generalised to an arbitrary value of its kind (stated in the contract)
                    return ov
            return frame.globals[name]
        if hasattr(builtins, name):
            return getattr(builtins, name)
        raise PyRaise(NameError, (name,))

    def e_Tuple(self, node, frame):
        return tuple(self.eval_elts(node.elts, frame))

    def e_List(self, node, frame):
        return list(self.eval_elts(node.elts, frame))

    def e_Set(self, node, frame):
        vals = self.eval_elts(node.elts, frame)
        if not deep_concrete(vals):
            raise Unsupported("set display with symbolic members")
        return set(vals)

    def eval_elts(self, elts, frame):
        out = []
        for e in elts:
            if isinstance(e, ast.Starred):
                out.extend(self.iterate(self.eval(e.value, frame)))
            else:
                out.append(self.eval(e, frame))
        return out

    def e_Dict(self, node, frame):
        mk = self.summaries.get("<option>ghost_dicts")
        if mk is not None and not node.keys:
            g = mk(frame.qn)
            if g is not None:
                self.path.ghost.setdefault("ghost_state", []).append(g)
                return g
        d = {}
        for k, v in zip(node.keys, node.values):
            if k is None:
                d.update(self.eval(v, frame))
            else:
                kk = self.eval(k, frame)
                if not deep_concrete(kk):
                    raise Unsupported("dict display with symbolic key")
                d[kk] = self.eval(v, frame)
        return d

    def e_JoinedStr(self, node, frame):
        parts = []
        for v in node.values:
            if isinstance(v, ast.Constant):
                parts.append(v.value)
            else:
                x = self.eval(v.value, frame)
                if v.conversion == 114:  # !r
                    x = self.to_repr(x)
                elif v.format_spec is not None:
                    spec = self.eval(v.format_spec, frame)
                    if deep_concrete(x) and isinstance(spec, str):
                        x = format(x, spec)
                    else:
                        raise Unsupported("f-string format spec on symbolic value")
                parts.append(self.to_str(x))
        return _mkstr(parts)

    def e_FormattedValue(self, node, frame):
        return self.to_str(self.eval(node.value, frame))

    def e_IfExp(self, node, frame):
        if self.truth(self.eval(node.test, frame)):
            return self.eval(node.body, frame)
        return self.eval(node.orelse, frame)

    def e_Lambda(self, node, frame):
        return SFunc(node, frame, self)

    def e_UnaryOp(self, node, frame):
        v = self.eval(node.operand, frame)
        if isinstance(node.op, ast.Not):
            t = self.truth_term(v)
            if isinstance(t, bool):
                return not t
            return z3.Not(t)
        if isinstance(node.op, ast.USub):
            if is_z3(v):
                return -(to_int(v) if z3.is_bool(v) else v)
            return -v
        if isinstance(node.op, ast.UAdd):
            return v
        raise Unsupported("unary op %s" % type(node.op).__name__)

    def e_BoolOp(self, node, frame):
        is_and = isinstance(node.op, ast.And)
        result = None
        for i, vnode in enumerate(node.values):
            v = self.eval(vnode, frame)
            last = i == len(node.values) - 1
            if last:
                return v
            t = self.truth_term(v)
            if isinstance(t, bool):
                if is_and and not t:
                    return v
                if (not is_and) and t:
                    return v
                continue
            # symbolic: when everything that follows is simple and side-effect free build a term
            rest = node.values[i + 1:]
            if is_z3(v) and z3.is_bool(v) and all(_is_simple_pure(r, allow_attr=False) for r in rest):
                try:
                    terms = [v]
                    ok = True
                    for r in rest:
                        rv = self.eval(r, frame)
                        rt = self.truth_term(rv)
                        if isinstance(rt, bool):
                            rt = z3.BoolVal(rt)
                        if not (isinstance(rv, bool) or (is_z3(rv) and z3.is_bool(rv))):
                            ok = False
                            break
                        terms.append(rt)
                    if ok:
                        return z3.And(*terms) if is_and else z3.Or(*terms)
                except PyRaise:
                    pass
            b = self.path.branch(t)
            if is_and and not b:
                return v if not is_z3(v) else False if z3.is_bool(v) else v
            if (not is_and) and b:
                return v if not (is_z3(v) and z3.is_bool(v)) else True
        return result

    def e_BinOp(self, node, frame):
        a = self.eval(node.left, frame)
        b = self.eval(node.right, frame)
        return self.binop(node.op, a, b)

    def e_Compare(self, node, frame):
        left = self.eval(node.left, frame)
        acc = None
        for op, rnode in zip(node.ops, node.comparators):
            right = self.eval(rnode, frame)
            c = self.compare(op, left, right)
            if acc is None:
                acc = c
            else:
                acc = _and(acc, c)
            if acc is False:
                return False
            left = right
        return acc

    def e_Attribute(self, node, frame):
        obj = self.eval(node.value, frame)
        return self.getattr(obj, node.attr)

    def e_Subscript(self, node, frame):
        obj = self.eval(node.value, frame)
        idx = self.eval_slice(node.slice, frame)
        return self.getitem(obj, idx)

    def eval_slice(self, s, frame):
        if isinstance(s, ast.Slice):
            lo = self.eval(s.lower, frame) if s.lower is not None else None
            hi = self.eval(s.upper, frame) if s.upper is not None else None
            st = self.eval(s.step, frame) if s.step is not None else None
            return slice(lo, hi, st)
        return self.eval(s, frame)

    def e_Call(self, node, frame):
        # zero-argument super()
        if isinstance(node.func, ast.Name) and node.func.id == "super" and not node.args:
            cls = frame.cells.get("__class__")
            f = frame
            while cls is None and f.parent is not None:
                f = f.parent
                cls = f.cells.get("__class__")
            if cls is None:
                raise Unsupported("zero-arg super() without __class__ cell")
            first = None
            fn_node = f.node
            if fn_node.args.args:
                first = f.locals.get(fn_node.args.args[0].arg)
            return self.make_super(cls, first)
        func = self.eval(node.func, frame)
        args = self.eval_elts(node.args, frame)
        kwargs = {}
        for kw in node.keywords:
            if kw.arg is None:
                kwargs.update(self.eval(kw.value, frame))
            else:
                kwargs[kw.arg] = self.eval(kw.value, frame)
        return self.call(func, args, kwargs)

    def make_super(self, cls, first):
        if isinstance(first, SObj):
            return SSuper(cls, first)
        if getattr(type(first), "__pyvc_symbolic__", False):
            raise Unsupported("super() on a ghost object of class %s" % type(first).__name__)
        if isinstance(first, type) or not is_symscalar(first):
            return super(cls, first)
        raise Unsupported("super() on symbolic scalar")

    def e_ListComp(self, node, frame):
        return self.comprehension(node, frame, "list")

    def e_GeneratorExp(self, node, frame):
        if len(node.generators) == 1:
            g = node.generators[0]
            src = self.eval(g.iter, frame)
            if hasattr(src, "sym_lazy_filter"):
                return src.sym_lazy_filter(self, node, g, frame)
            r = self.comprehension(node, frame, "list", first_iter=src)
            if type(r).__name__ == "SFiltered":
                from . import seqs

                return seqs.SSeqGen(r)
            if isinstance(r, SSeq):
                from . import seqs

                return seqs.SSeqGen(seqs.SFiltered(to_int(r.length), lambda i: z3.BoolVal(True), r.getter, name=r.name))
            return r
        return self.comprehension(node, frame, "list")

    def e_SetComp(self, node, frame):
        r = self.comprehension(node, frame, "list")
        if type(r).__name__ == "SFiltered":
            r.is_set = True
            return r
        if not deep_concrete(r):
            raise Unsupported("set comprehension with symbolic members")
        return set(r)

    def e_DictComp(self, node, frame):
        first = []
        if len(node.generators) == 1:
            src0 = self.eval(node.generators[0].iter, frame)
            if type(src0).__name__ in ("GDict", "GKeys"):
                from . import gsets

                return gsets.dictcomp(self, node, frame, src0)
            first = [src0]
        out = {}
        inner = Frame(frame.fn, {}, frame.node, frame.qn)
        inner.globals, inner.cells, inner.parent = frame.globals, frame.cells, frame

        def rec(gi):
            if gi == len(node.generators):
                k = self.eval(node.key, inner)
                if not deep_concrete(k):
                    raise Unsupported("dict comprehension with symbolic key")
                out[k] = self.eval(node.value, inner)
                return
            g = node.generators[gi]
            for x in self.iterate(first.pop() if (gi == 0 and first) else self.eval(g.iter, inner)):
                self.assign(g.target, x, inner)
                if all(self.truth(self.eval(c, inner)) for c in g.ifs):
                    rec(gi + 1)

        rec(0)
        return out

    def comprehension(self, node, frame, kind, first_iter=_MISSING):
        inner = Frame(frame.fn, {}, frame.node, frame.qn)
        inner.globals, inner.cells, inner.parent = frame.globals, frame.cells, frame
        # lazy map over a symbolic-length sequence
        if len(node.generators) == 1:
            g = node.generators[0]
            it = self.eval(g.iter, inner) if first_iter is _MISSING else first_iter
            if type(it).__name__ == "SFiltered":
                from . import seqs

                return seqs.summarise(self, it, node, g, frame)
            if isinstance(it, SSeq) and not z3.is_int_value(z3.simplify(to_int(it.length))):
                if g.ifs or not _is_simple_pure(node.elt, allow_attr=True):
                    from . import seqs

                    return seqs.summarise(self, it, node, g, frame)
                interp = self

                def getter(i, g=g, it=it, inner=inner, node=node):
                    fr = Frame(frame.fn, {}, frame.node, frame.qn)
                    fr.globals, fr.cells, fr.parent = frame.globals, frame.cells, frame
                    interp.assign(g.target, it.get(i), fr)
                    return interp.eval(node.elt, fr)

                return SSeq(it.length, getter, name="map(%s)" % it.name)
            out = []
            for x in self.iterate(it):
                self.assign(g.target, x, inner)
                if all(self.truth(self.eval(c, inner)) for c in g.ifs):
                    out.append(self.eval(node.elt, inner))
            return out
        out = []

        def rec(gi):
            if gi == len(node.generators):
                out.append(self.eval(node.elt, inner))
                return
            g = node.generators[gi]
            for x in self.iterate(self.eval(g.iter, inner)):
                self.assign(g.target, x, inner)
                if all(self.truth(self.eval(c, inner)) for c in g.ifs):
                    rec(gi + 1)

        rec(0)
        return out

    def e_Yield(self, node, frame):
        self.do_yield(node, frame)
        return None

    def e_Starred(self, node, frame):
        raise Unsupported("starred expression")

    def e_NamedExpr(self, node, frame):
        v = self.eval(node.value, frame)
        self.assign(node.target, v, frame)
        return v

    # ---------------------------------------------------------------- semantics helpers
    def truth_term(self, v):
        """bool or z3 Bool term for the truthiness of v."""
        if is_z3(v):
            if z3.is_bool(v):
                s = z3.simplify(v)
                if z3.is_true(s):
                    return True
                if z3.is_false(s):
                    return False
                return v
            if z3.is_int(v) or z3.is_real(v):
                return v != 0
            raise Unsupported("truth of term of sort %s" % v.sort())
        if isinstance(v, SStr):
            if any(isinstance(p, (str, FmtInt, FmtReal)) for p in v.parts):
                return True
            if any(isinstance(p, Atom) and p.nonempty for p in v.parts):
                return True
            if not v.parts:
                return False
            zs = v.z3()
            if zs is not None:
                return z3.Length(zs) > 0
            if all(isinstance(p, Atom) and getattr(p, "nonempty_iff", None) is not None for p in v.parts):
                return z3.Or(*[p.nonempty_iff for p in v.parts])
            raise Unsupported("truth of possibly-empty symbolic string")
        if isinstance(v, SSeq):
            return to_int(v.length) > 0
        if isinstance(v, SObj):
            if v.cls is not None:
                for nm in ("__bool__", "__len__"):
                    f = _find_in_mro(v.cls, nm)
                    if f is not None and isinstance(f, types.FunctionType):
                        r = self.call_function(f, [v])
                        return self.truth_term(r)
            return True
        if hasattr(v, "sym_truth"):
            return v.sym_truth(self)
        if isinstance(v, (SExc, BoundMethod, SFunc)):
            return True
        return bool(v)

    def truth(self, v):
        t = self.truth_term(v)
        if isinstance(t, bool):
            return t
        return self.path.branch(t)

    def to_str(self, v):
        if isinstance(v, (str, SStr)):
            return v
        if is_z3(v):
            if z3.is_int(v):
                return SStr([FmtInt(v)])
            if z3.is_real(v):
                return SStr([FmtReal(v)])
            if z3.is_bool(v):
                return "True" if self.path.branch(v) else "False"
        if isinstance(v, SObj):
            return SStr([Atom("str(%s)" % v.name)])
        if isinstance(v, (list, tuple, dict)) and not deep_concrete(v):
            return SStr([Atom("str(container)")])
        if isinstance(v, (SExc,)):
            return SStr([Atom("str(exc)")])
        if hasattr(v, "sym_str"):
            return v.sym_str(self)
        return str(v)

    def to_repr(self, v):
        if deep_concrete(v):
            return repr(v)
        if isinstance(v, SStr):
            return SStr(["'", Atom("repr-body"), "'"])
        return self.to_str(v)

    def format_percent(self, fmt, args):
        """`fmt % args` for a concrete format string."""
        if deep_concrete(args):
            try:
                return fmt % args
            except Exception as e:
                raise PyRaise(type(e), e.args)
        if isinstance(args, dict):
            raise Unsupported("%-format with mapping of symbolic values")
        if not isinstance(args, tuple):
            args = (args,)
        parts = []
        i = 0
        ai = 0
        n = len(fmt)
        while i < n:
            j = fmt.find("%", i)
            if j < 0:
                parts.append(fmt[i:])
                break
            parts.append(fmt[i:j])
            if j + 1 >= n:
                raise PyRaise(ValueError, ("incomplete format",))
            c = fmt[j + 1]
            if c == "%":
                parts.append("%")
                i = j + 2
                continue
            # parse flags/width/precision
            k = j + 1
            while k < n and fmt[k] in "-+ #0123456789.":
                k += 1
            spec = fmt[j + 1:k]
            conv = fmt[k] if k < n else ""
            if ai >= len(args):
                raise PyRaise(TypeError, ("not enough arguments for format string",))
            a = args[ai]
            ai += 1
            if deep_concrete(a):
                try:
                    parts.append(("%" + spec + conv) % (a,))
                except Exception as e:
                    raise PyRaise(type(e), e.args)
            elif conv == "s" and not spec:
                parts.append(self.to_str(a))
            elif conv in "di" and not spec:
                if is_z3(a) and (z3.is_int(a) or z3.is_bool(a)):
                    parts.append(FmtInt(to_int(a)))
                elif is_z3(a) and z3.is_real(a):
                    parts.append(FmtInt(real_trunc(a)))
                else:
                    raise PyRaise(TypeError, ("%d format: a real number is required",))
            elif conv == "r":
                parts.append(self.to_repr(a))
            elif conv in "di" and len(spec) == 2 and spec[0] == "0" and spec[1].isdigit() and is_z3(a) and (z3.is_int(a) or z3.is_bool(a)):
                parts.append(FmtInt(to_int(a), width=int(spec[1])))
            else:
                parts.append(Atom("fmt(%s%s)" % (spec, conv)))
            i = k + 1
        if ai != len(args):
            raise PyRaise(TypeError, ("not all arguments converted during string formatting",))
        return _mkstr(parts)

    def binop(self, op, a, b):
        opn = type(op).__name__
        if hasattr(a, "sym_binop"):
            return a.sym_binop(self, opn, b, False)
        if hasattr(b, "sym_binop"):
            return b.sym_binop(self, opn, a, True)
        # strings
        if isinstance(a, (str, SStr)) and not isinstance(a, bool):
            if opn == "Mod":
                if isinstance(a, SStr):
                    if not a.is_literal():
                        raise Unsupported("%-format with symbolic format string")
                    a = a.literal()
                return self.format_percent(a, b)
            if opn == "Add" and isinstance(b, (str, SStr)):
                if isinstance(a, str) and isinstance(b, str):
                    return a + b
                return _mkstr([a, b])
            if opn == "Mult" and isinstance(a, str) and isinstance(b, int):
                return a * b
            if isinstance(a, str) and deep_concrete(b):
                return self.native(_PYOPS[opn], [a, b], {})
            raise Unsupported("string op %s on %r, %r" % (opn, a, b))
        if opn == "Add" and isinstance(a, list) and type(b).__name__ in ("SFiltered", "SSeq"):
            from . import seqs

            return seqs.concat_front(a, b)
        if not is_symscalar(a) and not is_symscalar(b):
            if isinstance(a, SObj) or isinstance(b, SObj):
                return self.obj_binop(opn, a, b)
            return self.native(_PYOPS[opn], [a, b], {})
        if isinstance(a, SSeq) or isinstance(b, SSeq):
            raise Unsupported("operator %s on symbolic sequence" % opn)
        if isinstance(b, (str, SStr)):
            raise PyRaise(TypeError, ("unsupported operand types",))
        if a is None or b is None:
            raise PyRaise(TypeError, ("unsupported operand type(s): NoneType",))
        if not (is_num(a) and is_num(b)):
            raise Unsupported("operator %s on %r, %r" % (opn, a, b))
        both_int = is_intlike(a) and is_intlike(b)
        if opn == "Add":
            return (to_int(a) + to_int(b)) if both_int else (to_real(a) + to_real(b))
        if opn == "Sub":
            return (to_int(a) - to_int(b)) if both_int else (to_real(a) - to_real(b))
        if opn == "Mult":
            return (to_int(a) * to_int(b)) if both_int else (to_real(a) * to_real(b))
        if opn == "Div":
            self.check_nonzero(b)
            return to_real(a) / to_real(b)
        if opn == "FloorDiv":
            self.check_nonzero(b)
            if both_int:
                return py_floor_div(a, b)
            return z3.ToReal(z3.ToInt(to_real(a) / to_real(b)))
        if opn == "Mod":
            self.check_nonzero(b)
            if both_int:
                return py_mod(a, b)
            ra, rb = to_real(a), to_real(b)
            return ra - rb * z3.ToReal(z3.ToInt(ra / rb))
        if opn == "Pow":
            if isinstance(b, int) and 0 <= b <= 4:
                r = to_int(1) if both_int else to_real(1)
                for _ in range(b):
                    r = r * (to_int(a) if both_int else to_real(a))
                return r
            raise Unsupported("symbolic power")
        raise Unsupported("numeric operator %s" % opn)

    def obj_binop(self, opn, a, b):
        import datetime as _dt

        def ordinal(x):
            if isinstance(x, SObj) and x.cls is _dt.date and "_ordinal" in x.fields:
                return x.fields["_ordinal"]
            if isinstance(x, _dt.date):
                return x.toordinal()
            return None

        if opn == "Sub":
            oa, ob = ordinal(a), ordinal(b)
            if oa is not None and ob is not None:
                self.path.assumed.add("datetime.date subtraction yields the difference of proleptic Gregorian ordinals in days")
                return SObj(_dt.timedelta, "timedelta", days=to_int(oa) - to_int(ob))
        raise Unsupported("operator %s on object" % opn)

    def check_nonzero(self, b):
        if is_z3(b):
            zero = (to_int(b) == 0) if is_intlike(b) else (to_real(b) == 0)
            if self.path.branch(zero):
                raise PyRaise(ZeroDivisionError, ("division by zero",))
        elif b == 0:
            raise PyRaise(ZeroDivisionError, ("division by zero",))

    def num_pair(self, a, b):
        if is_intlike(a) and is_intlike(b):
            return to_int(a), to_int(b)
        return to_real(a), to_real(b)

    def eq(self, a, b):
        """Python `a == b` as bool or z3 Bool."""
        if is_symscalar(a) or is_symscalar(b):
            if isinstance(a, (SStr, str)) and isinstance(b, (SStr, str)) and not isinstance(a, bool) and not isinstance(b, bool):
                return str_eq(_as_sstr(a), _as_sstr(b))
            if isinstance(a, SSeq) or isinstance(b, SSeq):
                raise Unsupported("equality on symbolic sequence")
            if is_num(a) and is_num(b):
                if _nonfinite(a) or _nonfinite(b):
                    return False  # a symbolic number stands for a finite value (IEEE specials: bounded probes)
                if (is_z3(a) and z3.is_bool(a)) and (is_z3(b) and z3.is_bool(b)):
                    return a == b
                if is_z3(a) and z3.is_bool(a) and isinstance(b, bool):
                    return a if b else z3.Not(a)
                if is_z3(b) and z3.is_bool(b) and isinstance(a, bool):
                    return b if a else z3.Not(b)
                x, y = self.num_pair(a, b)
                return x == y
            return False  # different kinds (e.g. number vs None/str/object) never compare equal
        if hasattr(a, "sym_eq") and not isinstance(a, SObj):
            return a.sym_eq(self, b)
        if hasattr(b, "sym_eq") and not isinstance(b, SObj):
            return b.sym_eq(self, a)
        if isinstance(a, SObj) or isinstance(b, SObj):
            if isinstance(a, SObj) and a.cls is not None:
                f = _find_in_mro(a.cls, "__eq__")
                if isinstance(f, types.FunctionType):
                    return self.truth_term(self.call_function(f, [a, b]))
            return a is b
        if isinstance(a, (list, tuple)) and isinstance(b, (list, tuple)) and not (deep_concrete(a) and deep_concrete(b)):
            if type(a) is not type(b) and (isinstance(a, list) != isinstance(b, list)):
                return False
            if len(a) != len(b):
                return False
            acc = True
            for x, y in zip(a, b):
                acc = _and(acc, self.eq(x, y))
                if acc is False:
                    return False
            return acc
        if hasattr(a, "sym_eq"):
            return a.sym_eq(self, b)
        if hasattr(b, "sym_eq"):
            return b.sym_eq(self, a)
        return a == b

    def compare(self, op, a, b):
        opn = type(op).__name__
        if opn == "Is":
            return self.identical(a, b)
        if opn == "IsNot":
            return _not(self.identical(a, b))
        if opn == "Eq":
            return self.eq(a, b)
        if opn == "NotEq":
            return _not(self.eq(a, b))
        if opn in ("In", "NotIn"):
            r = self.contains(b, a)
            return r if opn == "In" else _not(r)
        if not is_symscalar(a) and not is_symscalar(b):
            if isinstance(a, SObj) or isinstance(b, SObj):
                raise Unsupported("ordering on objects")
            return self.native(_PYCMP[opn], [a, b], {})
        if isinstance(a, (SStr, SSeq)) or isinstance(b, (SStr, SSeq)):
            raise Unsupported("ordering on symbolic strings/sequences")
        if a is None or b is None or isinstance(a, str) or isinstance(b, str):
            raise PyRaise(TypeError, ("'%s' not supported between these types" % opn,))
        if not (is_num(a) and is_num(b)):
            raise Unsupported("comparison %s on %r, %r" % (opn, a, b))
        if _nonfinite(a) or _nonfinite(b):
            c, other_is_left = (a, False) if _nonfinite(a) else (b, True)
            if c != c:
                return False
            big = c > 0
            # other (finite) vs +-inf
            if other_is_left:
                return {"Lt": big, "LtE": big, "Gt": not big, "GtE": not big}[opn]
            return {"Lt": not big, "LtE": not big, "Gt": big, "GtE": big}[opn]
        x, y = self.num_pair(a, b)
        return {"Lt": x < y, "LtE": x <= y, "Gt": x > y, "GtE": x >= y}[opn]

    def identical(self, a, b):
        if a is None or b is None:
            if hasattr(a, "sym_is_none"):
                return a.sym_is_none(self)
            if hasattr(b, "sym_is_none"):
                return b.sym_is_none(self)
            return a is b
        if is_z3(a) and is_z3(b) and z3.is_bool(a) and z3.is_bool(b):
            return a == b
        if is_z3(a) and z3.is_bool(a) and isinstance(b, bool):
            return a if b else z3.Not(a)
        if is_z3(b) and z3.is_bool(b) and isinstance(a, bool):
            return b if a else z3.Not(b)
        if is_symscalar(a) or is_symscalar(b):
            raise Unsupported("identity test on symbolic scalars")
        if hasattr(a, "sym_is"):
            return a.sym_is(self, b)
        if hasattr(b, "sym_is"):
            return b.sym_is(self, a)
        return a is b

    def contains(self, container, item):
        if isinstance(container, (list, tuple, set, frozenset)) or (isinstance(container, dict)):
            if deep_concrete(container) and deep_concrete(item):
                return item in container
            acc = False
            for x in container:
                acc = _or(acc, self.eq(item, x))
                if acc is True:
                    return True
            return acc
        if isinstance(container, (str, SStr)):
            if isinstance(container, str) and isinstance(item, str):
                return item in container
            hay = _as_sstr(container)
            if isinstance(item, str) and len(item) == 1 and hay.z3() is None and all(isinstance(p, (str, Atom, FmtInt, FmtReal)) for p in hay.parts):
                # single character in a string with opaque pieces: one uninterpreted fact per (piece, character)
                acc = False
                for p in hay.parts:
                    if isinstance(p, str):
                        if item in p:
                            return True
                    elif _piece_alphabet_excludes(p, item):
                        continue
                    elif isinstance(p, Atom):
                        acc = _or(acc, atom_has_char(p, item))
                    else:
                        raise Unsupported("character test on a number rendering")
                return acc
            return str_contains(hay, _as_sstr(item))
        if isinstance(container, SSeq):
            raise Unsupported("membership in symbolic sequence without contract")
        if hasattr(container, "sym_contains"):
            return container.sym_contains(self, item)
        if isinstance(container, SObj) and container.cls is not None:
            f = _find_in_mro(container.cls, "__contains__")
            if isinstance(f, types.FunctionType):
                return self.truth_term(self.call_function(f, [container, item]))
        if deep_concrete(container) and deep_concrete(item):
            return self.native(operator.contains, [container, item], {})
        raise Unsupported("membership test in %r" % (container,))

    # -- attributes --
    def getattr(self, obj, name):
        if isinstance(obj, SObj):
            return self.obj_getattr(obj, name)
        if isinstance(obj, SSuper):
            return self.super_getattr(obj, name)
        if hasattr(obj, "sym_getattr"):
            return obj.sym_getattr(self, name)
        if is_z3(obj):
            if z3.is_int(obj):
                return self.int_getattr(obj, name)
            if z3.is_real(obj):
                raise Unsupported("attribute %s on symbolic float" % name)
            raise Unsupported("attribute %s on symbolic %s" % (name, obj.sort()))
        if isinstance(obj, SStr):
            pc = getattr(obj, "pycls", None)
            if pc is not None:
                for k in pc.__mro__:
                    if k is str:
                        break
                    if name in k.__dict__:
                        return self.bind_descriptor(k.__dict__[name], obj, pc, name)
            return BoundStrMethod(obj, name)
        if isinstance(obj, SSeq):
            if name == "__iter__":
                return GhostFn(lambda it, a, k, o=obj: o)
            if name == "__len__":
                return GhostFn(lambda it, a, k, o=obj: to_int(o.length))
            if name == "__getitem__":
                return GhostFn(lambda it, a, k, o=obj: it.getitem(o, a[0]))
            raise Unsupported("attribute %s on symbolic sequence" % name)
        if isinstance(obj, SExc):
            if name == "args":
                return obj.args
            raise Unsupported("attribute %s on exception" % name)
        if isinstance(obj, str) and name in _STR_METHODS:
            return BoundStrMethod(SStr([obj]), name, concrete=obj)
        try:
            return getattr(obj, name)
        except AttributeError as e:
            raise PyRaise(AttributeError, e.args)

    def int_getattr(self, term, name):
        from pptx.util import Length

        self.path.assumed.add("symbolic ints may be pptx.util.Length instances (attribute %s resolved on Length)" % name)
        d = inspect.getattr_static(Length, name, _MISSING)
        if d is _MISSING:
            raise PyRaise(AttributeError, (name,))
        if isinstance(d, property):
            return self.call_function(d.fget, [term])
        if isinstance(d, types.FunctionType):
            return BoundMethod(d, term)
        return d

    def obj_getattr(self, obj, name):
        if name in obj.fields:
            v = obj.fields[name]
            if isinstance(v, GhostProp):
                return v.h(self)
            return v
        if name == "__class__":
            return obj.cls
        if obj.cls is None:
            if obj.fields.get("__external__"):
                # stands for an object of a dependency of which only the listed attributes are modelled
                raise Unsupported("attribute %s of external object %s is not modelled" % (name, obj.name))
            raise PyRaise(AttributeError, (name,))
        d = _find_in_mro(obj.cls, name)
        if d is _MISSING or d is None and not _has_in_mro(obj.cls, name):
            ga = _find_in_mro(obj.cls, "__getattr__")
            if isinstance(ga, types.FunctionType):
                return self.call_function(ga, [obj, name])
            raise PyRaise(AttributeError, ("%s has no attribute %s" % (obj.name, name),))
        return self.bind_descriptor(d, obj, obj.cls, name)

    def bind_descriptor(self, d, obj, cls, name):
        if isinstance(d, property):
            if d.fget is None:
                raise PyRaise(AttributeError, (name,))
            return self.call(d.fget, [obj])
        if type(d).__name__ == "lazyproperty":
            # pptx.util.lazyproperty.__get__: cached in the instance dict, None is re-evaluated
            cached = obj.fields.get(name)
            if cached is None:
                cached = self.call(d._fget, [obj])
                obj.fields[name] = cached
            return cached
        if isinstance(d, types.FunctionType):
            return BoundMethod(d, obj)
        if isinstance(d, classmethod):
            return BoundMethod(d.__func__, cls)
        if isinstance(d, staticmethod):
            return d.__func__
        if d is object.__init__:
            return GhostFn(lambda it, a, k: None, "object.__init__")
        if isinstance(obj, SObj) and "__payload__" in obj.fields and isinstance(d, (types.WrapperDescriptorType, types.MethodDescriptorType)):
            # subclass of a builtin container whose storage is a ghost (e.g. CaseInsensitiveDict over a ghost dict)
            pl = obj.fields["__payload__"]
            if name == "__contains__":
                return GhostFn(lambda it, a, k: it.contains(pl, a[0]), "dict.__contains__")
            if name == "__getitem__":
                return GhostFn(lambda it, a, k: it.getitem(pl, a[0]), "dict.__getitem__")
            if name == "__setitem__":
                return GhostFn(lambda it, a, k: it.setitem(pl, a[0], a[1]), "dict.__setitem__")
            return self.getattr(pl, name)
        if hasattr(type(d), "__get__") and not isinstance(d, type):
            g = type(d).__get__
            if isinstance(g, types.FunctionType):
                return self.call_function(g, [d, obj, cls])
            raise Unsupported("descriptor %r for attribute %s" % (d, name))
        return d

    def super_getattr(self, sup, name):
        mro = sup.obj.cls.__mro__
        start = mro.index(sup.cls) + 1
        for k in mro[start:]:
            if name in k.__dict__:
                return self.bind_descriptor(k.__dict__[name], sup.obj, sup.obj.cls, name)
        raise PyRaise(AttributeError, (name,))

    def setattr(self, obj, name, v):
        if isinstance(obj, SObj):
            if name in obj.fields:
                obj.fields[name] = v
                return
            d = _find_in_mro(obj.cls, name) if obj.cls is not None else None
            if isinstance(d, property):
                if d.fset is None:
                    raise PyRaise(AttributeError, ("can't set attribute %s" % name,))
                self.call(d.fset, [obj, v])
                return
            if type(d).__name__ == "lazyproperty":
                raise PyRaise(AttributeError, ("can't set attribute",))
            obj.fields[name] = v
            return
        if hasattr(obj, "sym_setattr"):
            return obj.sym_setattr(self, name, v)
        if deep_concrete(obj) and deep_concrete(v) and not isinstance(obj, (type, types.ModuleType)):
            # closed term: store on a real (loose) object created by the real code itself
            try:
                return setattr(obj, name, v)
            except Exception as e:
                raise PyRaise(type(e), e.args)
        if self.summaries.get("<option>ignore_child_attribute_stores") and hasattr(obj, "tag") and hasattr(obj, "getparent"):
            # a real (freshly created) child element receiving an attribute value: outside a child-sequence contract
            self.path.assumed.add("assigning an attribute of a child element does not change the parent's child sequence")
            return None
        raise Unsupported("attribute store on %r" % (obj,))

    # -- subscripts --
    def getitem(self, obj, idx):
        if isinstance(obj, (list, tuple)):
            if isinstance(idx, slice):
                if deep_concrete([idx.start, idx.stop, idx.step]):
                    return obj[idx]
                raise Unsupported("symbolic slice of concrete-length list")
            if is_z3(idx):
                n = len(obj)
                idx = to_int(idx)
                conds = [idx == i for i in range(n)] + [idx == i - n for i in range(n)]
                conds.append(z3.And(*[z3.Not(c) for c in conds]) if conds else z3.BoolVal(True))
                k = self.path.fork(conds)
                if k == len(conds) - 1:
                    raise PyRaise(IndexError, ("index out of range",))
                return obj[k % n]
            return self.native(operator.getitem, [obj, idx], {})
        if isinstance(obj, dict):
            if deep_concrete(idx):
                if idx in obj:
                    return obj[idx]
                if not deep_concrete(list(obj.keys())):
                    raise Unsupported("dict with symbolic keys")
                raise PyRaise(KeyError, (idx,))
            keys = list(obj.keys())
            conds = [to_bool_term(self.eq(idx, k)) for k in keys]
            conds.append(z3.And(*[z3.Not(c) for c in conds]) if conds else z3.BoolVal(True))
            k = self.path.fork(conds)
            if k == len(keys):
                raise PyRaise(KeyError, ("<symbolic key>",))
            return obj[keys[k]]
        if isinstance(obj, (str, SStr)):
            return str_getitem(self, _as_sstr(obj), idx)
        if isinstance(obj, SSeq):
            if isinstance(idx, slice):
                raise Unsupported("slice of symbolic sequence")
            i = to_int(idx)
            n = to_int(obj.length)
            ok = z3.And(i >= -n, i < n)
            if not self.path.branch(ok):
                raise PyRaise(IndexError, ("sequence index out of range",))
            return obj.get(z3.If(i >= 0, i, i + n))
        if hasattr(obj, "sym_getitem"):
            return obj.sym_getitem(self, idx)
        if isinstance(obj, SObj) and obj.cls is not None:
            f = _find_in_mro(obj.cls, "__getitem__")
            if isinstance(f, types.FunctionType):
                return self.call_function(f, [obj, idx])
        if deep_concrete(obj) and deep_concrete(idx):
            return self.native(operator.getitem, [obj, idx], {})
        raise Unsupported("subscript of %r" % (obj,))

    def setitem(self, obj, idx, v):
        if isinstance(obj, (list, dict)) and deep_concrete(idx):
            try:
                obj[idx] = v
            except Exception as e:
                raise PyRaise(type(e), e.args)
            return
        if hasattr(obj, "sym_setitem"):
            return obj.sym_setitem(self, idx, v)
        if isinstance(obj, SObj) and obj.cls is not None:
            f = _find_in_mro(obj.cls, "__setitem__")
            if isinstance(f, types.FunctionType):
                return self.call_function(f, [obj, idx, v])
        raise Unsupported("subscript store on %r" % (obj,))

    def delitem(self, obj, idx):
        if isinstance(obj, (list, dict)) and deep_concrete(idx):
            try:
                del obj[idx]
            except Exception as e:
                raise PyRaise(type(e), e.args)
            return
        if hasattr(obj, "sym_delitem"):
            return obj.sym_delitem(self, idx)
        raise Unsupported("subscript delete on %r" % (obj,))


class SSuper:
    def __init__(self, cls, obj):
        self.cls = cls
        self.obj = obj


# --------------------------------------------------------------------------------------------
# strings

_STR_METHODS = {
    "startswith", "endswith", "upper", "lower", "replace", "isdigit", "strip", "split", "join", "format",
    "find", "index", "lstrip", "rstrip", "encode", "rsplit", "isdecimal", "count", "splitlines", "partition",
    "rpartition", "title", "capitalize",
}


def case_fn(name):
    """uninterpreted str.lower / str.upper on z3 strings (contracts add the axioms they need)."""
    return z3.Function("STR_" + name.upper(), z3.StringSort(), z3.StringSort())


def _mkstr(parts):
    s = SStr(parts)
    if s.is_literal():
        return s.literal()
    return s


def _as_sstr(s):
    if isinstance(s, SStr):
        return s
    return SStr([s])


def to_bool_term(t):
    if isinstance(t, bool):
        return z3.BoolVal(t)
    return t


def _and(a, b):
    if a is True:
        return b
    if b is True:
        return a
    if a is False or b is False:
        return False
    return z3.And(a, b)


def _or(a, b):
    if a is False:
        return b
    if b is False:
        return a
    if a is True or b is True:
        return True
    return z3.Or(a, b)


def _not(a):
    if isinstance(a, bool):
        return not a
    return z3.Not(a)


def str_eq(a, b):
    """Equality of structured strings; bool / z3 Bool, or Unsupported when not decidable."""
    pa, pb = list(a.parts), list(b.parts)
    if a.is_literal() and b.is_literal():
        return a.literal() == b.literal()
    # strip equal literal prefixes / suffixes piecewise
    if len(pa) == len(pb):
        acc = True
        for x, y in zip(pa, pb):
            if isinstance(x, str) and isinstance(y, str):
                if x != y:
                    acc = None
                    break
            elif isinstance(x, FmtInt) and isinstance(y, FmtInt) and x.width == y.width:
                acc = _and(acc, x.term == y.term)
            elif isinstance(x, FmtReal) and isinstance(y, FmtReal):
                acc = _and(acc, x.term == y.term)
            elif isinstance(x, Atom) and isinstance(y, Atom) and x.name == y.name:
                pass
            else:
                acc = None
                break
        if acc is not None:
            # piecewise equality is sufficient; it is also necessary when separators delimit the
            # variable pieces unambiguously (digits vs non-digit literals) -- we only claim that
            # for the single-variable case.
            nvar = sum(1 for p in pa if not isinstance(p, str))
            if nvar <= 1:
                return acc
    # single FmtInt vs literal
    if len(pa) == 1 and isinstance(pa[0], FmtInt) and b.is_literal():
        lit = b.literal()
        if _is_canonical_int(lit):
            return pa[0].term == int(lit)
        return False
    if len(pb) == 1 and isinstance(pb[0], FmtInt) and a.is_literal():
        return str_eq(b, a)
    # literal vs something containing a character class that cannot match
    if b.is_literal() or a.is_literal():
        lit, other = (b.literal(), a) if b.is_literal() else (a.literal(), b)
        for p in other.parts:
            if isinstance(p, str) and p not in lit:
                return False
        if lit == "" and any(isinstance(p, (str, FmtInt, FmtReal)) or (isinstance(p, Atom) and p.nonempty) for p in other.parts):
            return False
    za, zb = a.z3(), b.z3()
    if za is not None and zb is not None:
        return za == zb
    raise Unsupported("string equality %r == %r" % (a, b))


def _is_canonical_int(s):
    if not s:
        return False
    t = s[1:] if s[0] == "-" else s
    if not t or not all(c in DIGITS for c in t):
        return False
    if len(t) > 1 and t[0] == "0":
        return False
    if s == "-0":
        return False
    return True


def atom_has_char(atom, ch):
    """uninterpreted fact: the opaque string piece `atom` contains the character `ch`"""
    return z3.Bool("has_char[%s,%d]" % (atom.name, ord(ch)))


def str_contains(hay, needle):
    if not needle.is_literal():
        zh, zn = hay.z3(), needle.z3()
        if hay.is_literal() and zn is not None and len(needle.parts) == 1 and isinstance(needle.parts[0], Atom) and "char" in needle.parts[0].tags:
            chars = sorted(set(hay.literal()))
            if not chars:
                return False
            return z3.Or(*[zn == z3.StringVal(ch) for ch in chars])
        if zh is not None and zn is not None:
            return z3.Contains(zh, zn)
        raise Unsupported("substring test with symbolic needle")
    nd = needle.literal()
    if nd == "":
        return True
    for p in hay.parts:
        if isinstance(p, str) and nd in p:
            return True
    if len(nd) == 1:
        if all(_piece_alphabet_excludes(p, nd) for p in hay.parts):
            return False
    zh = hay.z3()
    if zh is not None:
        return z3.Contains(zh, z3.StringVal(nd))
    raise Unsupported("substring test %r in %r" % (nd, hay))


def str_startswith(hay, prefix):
    if not prefix.is_literal():
        raise Unsupported("startswith with symbolic prefix")
    pf = prefix.literal()
    if pf == "":
        return True
    if not hay.parts:
        return False
    first = hay.parts[0]
    if isinstance(first, str):
        if len(first) >= len(pf):
            return first.startswith(pf)
        if not pf.startswith(first):
            return False
    elif len(pf) >= 1 and _piece_alphabet_excludes(first, pf[0]) and (
        isinstance(first, (FmtInt, FmtReal)) or (isinstance(first, Atom) and first.nonempty)
    ):
        return False
    zh = hay.z3()
    if zh is not None:
        return z3.PrefixOf(z3.StringVal(pf), zh)
    raise Unsupported("startswith %r on %r" % (pf, hay))


def str_endswith(hay, suffix):
    if not suffix.is_literal():
        raise Unsupported("endswith with symbolic suffix")
    sf = suffix.literal()
    if sf == "":
        return True
    if not hay.parts:
        return False
    last = hay.parts[-1]
    if isinstance(last, str):
        if len(last) >= len(sf):
            return last.endswith(sf)
        if not sf.endswith(last):
            return False
    elif _piece_alphabet_excludes(last, sf[-1]) and (
        isinstance(last, (FmtInt, FmtReal)) or (isinstance(last, Atom) and last.nonempty)
    ):
        return False
    zh = hay.z3()
    if zh is not None:
        return z3.SuffixOf(z3.StringVal(sf), zh)
    raise Unsupported("endswith %r on %r" % (sf, hay))


def str_getitem(interp, s, idx):
    if s.is_literal():
        lit = s.literal()
        if deep_concrete(idx) or (isinstance(idx, slice) and deep_concrete([idx.start, idx.stop, idx.step])):
            return interp.native(operator.getitem, [lit, idx], {})
        raise Unsupported("symbolic index into literal string")
    if isinstance(idx, slice) and idx.step is None:
        lo, hi = idx.start, idx.stop
        parts = list(s.parts)
        # s[:-k] / s[-k:] where the last piece is a literal at least k long
        if lo is None and isinstance(hi, int) and hi < 0 and isinstance(parts[-1], str) and len(parts[-1]) >= -hi:
            return _mkstr(parts[:-1] + [parts[-1][:hi]])
        if hi is None and isinstance(lo, int) and lo < 0 and isinstance(parts[-1], str) and len(parts[-1]) >= -lo:
            return parts[-1][lo:]
        if hi is None and isinstance(lo, int) and lo >= 0 and isinstance(parts[0], str) and len(parts[0]) >= lo:
            return _mkstr([parts[0][lo:]] + parts[1:])
        if lo is None and isinstance(hi, int) and hi >= 0 and isinstance(parts[0], str) and len(parts[0]) >= hi:
            return parts[0][:hi]
        if lo is None and hi is None:
            return s
    if isinstance(idx, int) and not isinstance(idx, bool):
        parts = list(s.parts)
        if idx >= 0 and isinstance(parts[0], str) and len(parts[0]) > idx:
            return parts[0][idx]
        if idx < 0 and isinstance(parts[-1], str) and len(parts[-1]) >= -idx:
            return parts[-1][idx]
    zs = s.z3()
    if zs is not None:
        ln = z3.Length(zs)
        mk = lambda term: SStr([Atom(interp.path.fresh("sub", z3.IntSort()).decl().name(), zs=term)])
        if isinstance(idx, slice) and idx.step is None and all(x is None or isinstance(x, int) for x in (idx.start, idx.stop)):
            lo, hi = idx.start, idx.stop
            if lo is None and isinstance(hi, int) and hi < 0:
                if interp.path.branch(ln >= -hi):
                    return mk(z3.SubString(zs, 0, ln + hi))
                return ""
            if hi is None and isinstance(lo, int) and lo < 0:
                if interp.path.branch(ln >= -lo):
                    return mk(z3.SubString(zs, ln + lo, -lo))
                return s
            if hi is None and isinstance(lo, int) and lo >= 0:
                if interp.path.branch(ln >= lo):
                    return mk(z3.SubString(zs, lo, ln - lo))
                return ""
            if lo is None and isinstance(hi, int) and hi >= 0:
                return mk(z3.SubString(zs, 0, hi))
        if isinstance(idx, int) and not isinstance(idx, bool):
            ok = (ln > idx) if idx >= 0 else (ln >= -idx)
            if not interp.path.branch(ok):
                raise PyRaise(IndexError, ("string index out of range",))
            return mk(z3.SubString(zs, idx if idx >= 0 else ln + idx, 1))
    raise Unsupported("subscript %r of %r" % (idx, s))


class BoundStrMethod:
    def __init__(self, s, name, concrete=None):
        self.s = s
        self.name = name
        self.concrete = concrete


def call_str_method(interp, bm, args, kwargs):
    s, name = bm.s, bm.name
    if bm.concrete is not None and deep_concrete(args) and deep_concrete(kwargs):
        return interp.native(getattr(bm.concrete, name), args, kwargs)
    if s.is_literal() and deep_concrete(args) and deep_concrete(kwargs):
        return interp.native(getattr(s.literal(), name), args, kwargs)
    if name in ("startswith", "endswith") and len(args) == 1:
        fn = str_startswith if name == "startswith" else str_endswith
        if isinstance(args[0], tuple):  # any of the alternatives
            acc = False
            for alt in args[0]:
                acc = _or(acc, fn(s, _as_sstr(alt)))
                if acc is True:
                    return True
            return acc
        return fn(s, _as_sstr(args[0]))
    if name == "upper" or name == "lower":
        fn = str.upper if name == "upper" else str.lower
        out = []
        for p in s.parts:
            if isinstance(p, str):
                out.append(fn(p))
            elif isinstance(p, FmtInt):
                out.append(p)
            elif isinstance(p, Atom):
                out.append(Atom("%s(%s)" % (name, p.name), p.excludes - frozenset("abcdefghijklmnopqrstuvwxyzABCDEFGHIJKLMNOPQRSTUVWXYZ"), p.nonempty, p.tags | {name},
                                zs=case_fn(name)(p.zs) if p.zs is not None and getattr(interp, "summaries", {}).get("<option>case_functions") else None,
                                case_of=(name, p.zs) if p.zs is not None else None))
            else:
                raise Unsupported("%s of float rendering" % name)
        return _mkstr(out)
    if name == "replace" and len(args) == 2 and isinstance(args[0], str) and isinstance(args[1], str):
        old, new = args
        if len(old) == 1:
            out = []
            for p in s.parts:
                if isinstance(p, str):
                    out.append(p.replace(old, new))
                elif _piece_alphabet_excludes(p, old):
                    out.append(p)
                else:
                    raise Unsupported("replace(%r) on piece %r" % (old, p))
            return _mkstr(out)
    if name == "join":
        items = interp.iterate(args[0])
        out = []
        for i, it in enumerate(items):
            if i:
                out.append(s)
            out.append(interp.to_str(it) if not isinstance(it, (str, SStr)) else it)
        return _mkstr(out)
    if name == "format":
        if not s.is_literal():
            raise Unsupported("format on symbolic template")
        return format_braces(interp, s.literal(), args, kwargs)
    if name == "isdigit":
        if all(isinstance(p, str) for p in s.parts):
            return s.literal().isdigit()
        zs = s.z3()
        if zs is not None:
            from . import zstr

            interp.path.assumed.add("str.isdigit() accepts exactly the non-empty strings of characters with the Unicode digit property (table taken from the running interpreter)")
            return z3.InRe(zs, zstr.isdigit_re())
        raise Unsupported("isdigit on symbolic string")
    if name == "isdecimal":
        if all(isinstance(p, str) for p in s.parts):
            return s.literal().isdecimal()
        zs = s.z3()
        if zs is not None:
            from . import zstr

            interp.path.assumed.add("str.isdecimal() accepts exactly the non-empty strings of Unicode decimal digits (Nd), which is the digit set int() parses")
            return z3.InRe(zs, zstr.isdecimal_re())
        raise Unsupported("isdecimal on symbolic string")
    if name == "encode":
        return s
    raise Unsupported("str.%s on %r" % (name, s))


def format_braces(interp, tmpl, args, kwargs):
    import string

    parts = []
    auto = 0
    for lit, field, spec, conv in string.Formatter().parse(tmpl):
        parts.append(lit)
        if field is None:
            continue
        if field == "":
            v = args[auto]
            auto += 1
        elif field.isdigit():
            v = args[int(field)]
        elif field in kwargs:
            v = kwargs[field]
        else:
            raise Unsupported("format field %r" % field)
        if spec or conv:
            if deep_concrete(v):
                parts.append(format(v, spec))
                continue
            raise Unsupported("format spec on symbolic value")
        parts.append(interp.to_str(v))
    return _mkstr(parts)


MODELS_BOUNDSTR = None

# --------------------------------------------------------------------------------------------
# helpers

_PYOPS = {
    "Add": operator.add, "Sub": operator.sub, "Mult": operator.mul, "Div": operator.truediv,
    "FloorDiv": operator.floordiv, "Mod": operator.mod, "Pow": operator.pow, "BitOr": operator.or_,
    "BitAnd": operator.and_, "BitXor": operator.xor, "LShift": operator.lshift, "RShift": operator.rshift,
}
_PYCMP = {"Lt": operator.lt, "LtE": operator.le, "Gt": operator.gt, "GtE": operator.ge}


def _load(target):
    import copy

    t = copy.copy(target)
    t.ctx = ast.Load()
    return t


def _issub(a, b):
    try:
        return issubclass(a, b)
    except TypeError:
        return False


def _find_in_mro(cls, name):
    if cls is None:
        return None
    for k in cls.__mro__:
        if name in k.__dict__:
            return k.__dict__[name]
    return None


def _has_in_mro(cls, name):
    return any(name in k.__dict__ for k in cls.__mro__)


def _is_generator(node):
    for n in _walk_same_scope(node):
        if isinstance(n, (ast.Yield, ast.YieldFrom)):
            return True
    return False


def _walk_same_scope(node):
    todo = list(ast.iter_child_nodes(node))
    while todo:
        n = todo.pop()
        yield n
        if isinstance(n, (ast.FunctionDef, ast.Lambda, ast.AsyncFunctionDef, ast.ClassDef)):
            continue
        todo.extend(ast.iter_child_nodes(n))


def _is_simple_pure(node, allow_attr=True):
    """Expression whose evaluation has no side effects and cannot fork on its own."""
    if isinstance(node, (ast.Constant, ast.Name)):
        return True
    if isinstance(node, ast.Attribute):
        return allow_attr and _is_simple_pure(node.value, allow_attr)
    if isinstance(node, ast.Compare):
        return _is_simple_pure(node.left, allow_attr) and all(_is_simple_pure(c, allow_attr) for c in node.comparators) and all(
            isinstance(o, (ast.Lt, ast.LtE, ast.Gt, ast.GtE, ast.Eq, ast.NotEq, ast.Is, ast.IsNot)) for o in node.ops
        )
    if isinstance(node, ast.UnaryOp):
        return _is_simple_pure(node.operand, allow_attr)
    if isinstance(node, ast.BoolOp):
        return all(_is_simple_pure(v, allow_attr) for v in node.values)
    if isinstance(node, ast.BinOp):
        return isinstance(node.op, (ast.Add, ast.Sub, ast.Mult)) and _is_simple_pure(node.left, allow_attr) and _is_simple_pure(node.right, allow_attr)
    if isinstance(node, (ast.Tuple,)):
        return all(_is_simple_pure(e, allow_attr) for e in node.elts)
    return False


# --------------------------------------------------------------------------------------------
# loop contracts


def havoc_like(path, name, v):
    """Fresh symbol of the same kind as value v (for loop-modified variables)."""
    if is_z3(v):
        return path.fresh("hv_" + name, v.sort())
    if isinstance(v, bool):
        return path.fresh("hv_" + name, z3.BoolSort())
    if isinstance(v, int):
        return path.fresh("hv_" + name, z3.IntSort())
    if isinstance(v, float):
        return path.fresh("hv_" + name, z3.RealSort())
    if isinstance(v, (str, SStr)) or type(v).__name__ == "GText":
        # a string built up by the loop: prefix ++ (one structured piece per recorded append)
        from .gsets import GText

        return GText.havocked(v, "%s_%d_%d" % (name, len(path.taken), path.n))
    raise Unsupported("cannot havoc %s = %r" % (name, v))


def _oblige_conjuncts(path, name, claim, kind="inv"):
    """a conjunction is discharged conjunct by conjunct (smaller queries; same meaning)"""
    if is_z3(claim) and z3.is_and(claim) and claim.num_args() > 1:
        for i, cj in enumerate(claim.children()):
            _oblige_conjuncts(path, "%s.c%d" % (name, i), cj, kind)
        return
    path.oblige(name, claim, kind=kind)


def invariant_loop(label, modifies, inv, elem=None, on_havoc=None, split=False):
    """Loop contract for `for target in <symbolic sequence>` (DESIGN 2.2: init / preserve / use).

    inv(env, k) -> z3 Bool: invariant after k iterations, `env` maps local names to values.
    `modifies`: names of the locals the loop assigns (havocked).  `break` inside the body is not
    supported (Unsupported), `continue` is."""

    def spec(it, node, frame, seq):
        filt = type(seq).__name__ == "SFiltered" and getattr(seq, "objects", False)
        if not isinstance(seq, SSeq) and not filt:
            # concrete iteration: plain unrolling is exact
            items = it.iterate(seq)
            for x in items:
                it.assign(node.target, x, frame)
                try:
                    it.exec_block(node.body, frame)
                except _Continue:
                    continue
            return
        if node.orelse:
            raise Unsupported("for-else under loop contract")
        path = it.path
        # a filtered subsequence is walked over the index of the underlying sequence: the body runs at k iff cond(k)
        n = to_int(seq.n if filt else seq.length)
        env0 = dict(frame.locals)
        path.oblige("%s.inv.init" % label, inv(env0, z3.IntVal(0)), kind="inv")
        leg = path.fork([z3.BoolVal(True), z3.BoolVal(True)]) if False else path.fork_free(2)
        for name in modifies:
            if name in frame.locals:
                frame.locals[name] = havoc_like(path, name, frame.locals[name])
            else:
                raise Unsupported("loop-modified local %s is unbound before the loop" % name)
        for gi, g in enumerate(path.ghost.get("ghost_state", [])):
            g.havoc("h%d_%d_%d" % (gi, len(path.taken), path.n))
        if on_havoc is not None:
            on_havoc(path)
        if leg == 0:
            k = path.fresh("k", z3.IntSort())
            path.assume(z3.And(k >= 0, k < n))
            path.assume(inv(dict(frame.locals), k))
            if filt and not path.branch(seq.cond(k)):
                ((lambda nm, cl, kind="inv": _oblige_conjuncts(path, nm, cl, kind)) if split else path.oblige)("%s.inv.keep" % label, inv(dict(frame.locals), k + 1), kind="inv")
                raise PathDone()
            x = ((seq.elt_it(it, k) if getattr(seq, "elt_it", None) is not None else seq.elt(k)) if filt else seq.get(k)) if elem is None else elem(it, k)
            it.assign(node.target, x, frame)
            try:
                it.exec_block(node.body, frame)
            except _Continue:
                pass
            except _Break:
                raise Unsupported("break inside a loop under contract")
            ((lambda nm, cl, kind="inv": _oblige_conjuncts(path, nm, cl, kind)) if split else path.oblige)("%s.inv.keep" % label, inv(dict(frame.locals), k + 1), kind="inv")
            raise PathDone()
        path.assume(inv(dict(frame.locals), n))
        path.assume(n >= 0)

    return spec


def _fork_free(self, n):
    """n-way fork whose alternatives are all unconditionally explored."""
    k = len(self.taken)
    if k < len(self.prefix):
        choice = self.prefix[k]
    else:
        choice = 0
        for other in range(1, n):
            self.pending.append(self.taken + [other])
    self.taken.append(choice)
    return choice


Path.fork_free = _fork_free


def invariant_while(label, modifies, inv, on_havoc=None):
    """Loop contract for `while <cond>:` (break allowed).  inv(env) -> z3 Bool."""

    def spec(it, node, frame, _unused):
        if node.orelse:
            raise Unsupported("while-else under loop contract")
        path = it.path
        path.oblige("%s.inv.init" % label, inv(dict(frame.locals)), kind="inv")
        leg = path.fork_free(2)
        for name in modifies:
            if name in frame.locals:
                frame.locals[name] = havoc_like(path, name, frame.locals[name])
            else:
                raise Unsupported("loop-modified local %s is unbound before the loop" % name)
        if on_havoc is not None:
            on_havoc(path)
        path.assume(inv(dict(frame.locals)))
        if leg == 0:
            # an arbitrary iteration: guard holds, body runs, invariant re-established (or the loop is left by break/return)
            if not it.truth(it.eval(node.test, frame)):
                raise PathDone()
            try:
                it.exec_block(node.body, frame)
            except _Continue:
                pass
            except _Break:
                return  # leaves the loop with the state at the break: execution continues after the loop
            path.oblige("%s.inv.keep" % label, inv(dict(frame.locals)), kind="inv")
            raise PathDone()
        # exit through the guard becoming false
        if it.truth(it.eval(node.test, frame)):
            raise PathDone()

    return spec


def unroll_while(label, max_iter):
    """Loop contract by bounded unwinding: the loop is executed up to `max_iter` times, then an
    *unwinding assertion* (the guard is false) must be discharged -- complete when it is."""

    def spec(it, node, frame, _unused):
        if node.orelse:
            raise Unsupported("while-else under unwinding")
        for _ in range(max_iter):
            if not it.truth(it.eval(node.test, frame)):
                return
            try:
                it.exec_block(node.body, frame)
            except _Continue:
                continue
            except _Break:
                return
        g = it.truth_term(it.eval(node.test, frame))
        it.path.oblige("%s.unwinding[%d]" % (label, max_iter), _not(g) if not isinstance(g, bool) else z3.BoolVal(not g), kind="inv")
        it.path.assume(_not(g) if not isinstance(g, bool) else z3.BoolVal(not g))

    return spec

"""pyvc -- verification-condition generator for the real python-pptx functions.

Symbolically executes the *real* source of functions in /repo (obtained from the live function
objects on every run), against sidecar contracts kept in /verif/contracts, and discharges every
obligation with z3 (cvc5 as second back end).  See /verif/DESIGN.md section 2.
"""

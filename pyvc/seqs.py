"""Comprehensions, filters, sorting and generators over symbolic-length sequences.

`[elt(x) for x in seq if cond(x)]` over an `SSeq` of symbolic length is summarised by exploring the
element computation once for a *generic* index (nested exploration): the result is an `SFiltered`
holding, as z3 terms in the index, the filter condition, the element value and -- when the element
computation can raise -- the guard under which it does.  Consumers (`max`, `min`, `len`, `in`,
truthiness, `sorted`, `next`) are given the defining axioms of the built-ins (ASSUMED, Appendix B)."""
from __future__ import annotations

import z3

from .engine import (
    Frame, Infeasible, PathDone, Path, PyRaise, SSeq, Unsupported, _and, is_intlike, is_num, is_z3, to_bool_term, to_int, to_real,
)

_N = [0]


def _fresh(prefix):
    _N[0] += 1
    return "%s%d" % (prefix, _N[0])


class SFiltered:
    """Filtered map over a symbolic sequence.  cond(i), elt(i) are python callables index-term -> term."""

    __pyvc_symbolic__ = True

    def __init__(self, n, cond, elt, name="filtered"):
        self.n = n
        self.cond = cond
        self.elt = elt
        self.name = name

    # -- consumers --
    def sym_truth(self, it):
        j = z3.Int(_fresh("jt"))
        w = it.path.fresh("wit", z3.IntSort())
        if it.path.fork_free(2) == 0:
            it.path.assume(z3.And(0 <= w, w < self.n, self.cond(w)))
            return True
        it.path.assume(z3.ForAll([j], z3.Implies(z3.And(0 <= j, j < self.n), z3.Not(self.cond(j)))))
        return False

    def exists_eq(self, v):
        j = z3.Int(_fresh("je"))
        return z3.Exists([j], z3.And(0 <= j, j < self.n, self.cond(j), self.elt(j) == v))

    def sym_contains(self, it, item):
        from .engine import SStr, _as_sstr

        if isinstance(item, (str, SStr)) and not isinstance(item, bool):
            z = _as_sstr(item).z3()
            if z is None:
                raise Unsupported("membership of a string without z3 form")
            return self.exists_eq(z)
        if not is_num(item):
            raise Unsupported("membership of a non-number in a filtered symbolic sequence")
        return self.exists_eq(to_int(item) if is_intlike(item) else to_real(item))

    def sym_len(self, it):
        it.path.assumed.add("len() of a filtered sequence: 0 <= L <= len(source), L == 0 iff no element passes the filter, L >= 2 iff two do")
        L = it.path.fresh("len", z3.IntSort())
        j = z3.Int(_fresh("jl"))
        none = z3.ForAll([j], z3.Implies(z3.And(0 <= j, j < self.n), z3.Not(self.cond(j))))
        a, b = z3.Int(_fresh("ja")), z3.Int(_fresh("jb"))
        two = z3.Exists([a, b], z3.And(0 <= a, a < b, b < self.n, self.cond(a), self.cond(b)))
        it.path.assume(z3.And(L >= 0, L <= self.n, (L == 0) == none, (L >= 2) == two))
        self.length_term = L
        return L

    def minmax(self, it, is_min):
        if not self.sym_truth(it):
            raise PyRaise(ValueError, ("min()/max() arg is an empty sequence",))
        it.path.assumed.add("min()/max() of a non-empty sequence returns an element bounding all elements")
        sample = self.elt(z3.IntVal(0))
        isint = is_intlike(sample)
        m = it.path.fresh("min" if is_min else "max", z3.IntSort() if isint else z3.RealSort())
        k = it.path.fresh("argm", z3.IntSort())
        j = z3.Int(_fresh("jm"))
        e = self.elt(j)
        bound = (m <= e) if is_min else (m >= e)
        it.path.assume(z3.ForAll([j], z3.Implies(z3.And(0 <= j, j < self.n, self.cond(j)), bound)))
        it.path.assume(z3.And(0 <= k, k < self.n, self.cond(k), m == self.elt(k)))
        return m


def _unary_apps(term, var):
    """uninterpreted unary applications f(var) occurring in term (candidate E-matching patterns)."""
    out = {}
    todo = [term]
    seen = set()
    while todo:
        e = todo.pop()
        if e.get_id() in seen:
            continue
        seen.add(e.get_id())
        if z3.is_app(e):
            if e.decl().kind() == z3.Z3_OP_UNINTERPRETED and e.num_args() == 1 and e.arg(0).eq(var):
                out[e.decl().name()] = e
            todo.extend(e.children())
    return list(out.values())


class SSorted:
    """sorted(<filtered/sequence of numbers>): ascending sequence S of length L, same elements."""

    __pyvc_symbolic__ = True

    def __init__(self, it, src):
        it.path.assumed.add("sorted(): ascending, every output element is an input element and vice versa, length of the output = number of inputs")
        self.src = src
        L = it.path.fresh("slen", z3.IntSort())
        self.S = z3.Function(_fresh("sorted"), z3.IntSort(), z3.IntSort())
        self.pos = z3.Function(_fresh("spos"), z3.IntSort(), z3.IntSort())  # input index -> output index
        self.org = z3.Function(_fresh("sorg"), z3.IntSort(), z3.IntSort())  # output index -> input index
        self.L = L
        it.path.ghost.setdefault("sorted", []).append(self)
        a, b, j = z3.Ints("%s %s %s" % (_fresh("sa"), _fresh("sb"), _fresh("sj")))
        S, pos, org = self.S, self.pos, self.org
        cond, elt, n = src.cond, src.elt, src.n
        it.path.assume(z3.And(
            L >= 0, L <= n,
            z3.ForAll([a, b], z3.Implies(z3.And(0 <= a, a < b, b < L), S(a) <= S(b))),
            z3.ForAll([a], z3.Implies(z3.And(0 <= a, a < L), z3.And(0 <= org(a), org(a) < n, cond(org(a)), S(a) == elt(org(a)), pos(org(a)) == a))),
            z3.ForAll([j], z3.Implies(z3.And(0 <= j, j < n, cond(j)), z3.And(0 <= pos(j), pos(j) < L, S(pos(j)) == elt(j), org(pos(j)) == j)),
                      patterns=[pos(j)] + _unary_apps(z3.And(cond(j), elt(j) == elt(j)), j)),
        ))

    def as_seq(self):
        return SSeq(self.L, lambda i: self.S(to_int(i)), name="sorted")


class SSeqGen:
    """Generator expression `(elt for x in seq if cond)` over an SSeq; supports `next()` and `sorted()`."""

    __pyvc_symbolic__ = True

    def __init__(self, filtered):
        self.filtered = filtered

    def sym_next(self, it, rest):
        f = self.filtered
        j = z3.Int(_fresh("jn"))
        if it.path.fork_free(2) == 1:
            it.path.assume(z3.ForAll([j], z3.Implies(z3.And(0 <= j, j < f.n), z3.Not(f.cond(j)))))
            if rest:
                return rest[0]
            raise PyRaise(StopIteration, ())
        p = it.path.fresh("first", z3.IntSort())
        it.path.assume(z3.And(0 <= p, p < f.n, f.cond(p), z3.ForAll([j], z3.Implies(z3.And(0 <= j, j < p), z3.Not(f.cond(j))))))
        return f.elt(p)


def concat_front(lst, seq):
    """python list ++ symbolic sequence."""
    k = len(lst)
    if isinstance(seq, SSeq):
        seq = SFiltered(to_int(seq.length), lambda i: z3.BoolVal(True), seq.getter, name=seq.name)
    vals = list(lst)
    if not all(is_num(v) for v in vals):
        raise Unsupported("list + symbolic sequence with non-numeric items")

    def cond(i, seq=seq):
        return z3.If(i < k, z3.BoolVal(True), seq.cond(i - k))

    def elt(i, seq=seq):
        e = seq.elt(i - k)
        for idx in reversed(range(k)):
            e = z3.If(i == idx, to_int(vals[idx]) if is_intlike(vals[idx]) else to_real(vals[idx]), e)
        return e

    return SFiltered(seq.n + k, cond, elt, name="list+%s" % seq.name)


def summarise(it, seq, node, gen, frame):
    """Explore `elt` / `ifs` of a single-generator comprehension for a generic index of `seq`.

    Returns SFiltered.  If the element computation can raise for some element passing the filter, the
    current path forks: one leg raises that exception (with a witness index), the other assumes no
    element does."""
    if isinstance(seq, SFiltered):
        n = seq.n
        base_cond = seq.cond
        getter = seq.elt
    else:
        n = to_int(seq.length)
        base_cond = None
        getter = seq.get
    jname = _fresh("gi")
    j = z3.Int(jname)
    outer = it.path
    fresh_all = []
    results = []  # (conds, kind, value)
    work = [[]]
    while work:
        prefix = work.pop()
        p = Path(prefix, outer.timeout)
        p.pc = list(outer.pc) + [j >= 0, j < n] + ([base_cond(j)] if base_cond is not None else [])
        p.n = outer.n + 1000 * (len(results) + 1)
        p.fresh_log = fresh_all
        p.assumed = outer.assumed
        base = len(p.pc)
        sub = type(it)(p, loop_specs=it.loop_specs, summaries=it.summaries)
        sub.depth, sub.active = max(1, it.depth), list(getattr(it, 'active', []))
        fr = Frame(frame.fn, {}, frame.node, frame.qn)
        fr.globals, fr.cells, fr.parent = frame.globals, frame.cells, frame
        try:
            sub.assign(gen.target, seq.elt_it(sub, j) if getattr(seq, "elt_it", None) is not None else getter(j), fr)
            passed = True
            for c in gen.ifs:
                if not sub.truth(sub.eval(c, fr)):
                    passed = False
                    break
            if not passed:
                results.append((p.pc[base:], "skip", None))
            else:
                v = sub.eval(node.elt, fr)
                results.append((p.pc[base:], "value", v))
        except Infeasible:
            pass
        except PyRaise as e:
            results.append((p.pc[base:], "raise", e))
        work.extend(p.pending)
        if len(results) > 64:
            raise Unsupported("element computation of a comprehension has more than 64 paths")
    vals = [(z3.And(*c) if c else z3.BoolVal(True), v) for c, k, v in results if k == "value"]
    raises = [(z3.And(*c) if c else z3.BoolVal(True), v) for c, k, v in results if k == "raise"]
    if not vals and not raises:
        return SFiltered(n, lambda i: z3.BoolVal(False), lambda i: z3.IntVal(0))

    # symbols created while evaluating the generic element are functions of the index
    fmap = []
    seen_f = set()
    for cst in fresh_all:
        nm = cst.decl().name()
        if nm in seen_f:
            continue
        seen_f.add(nm)
        F = z3.Function(nm + "_of", z3.IntSort(), cst.sort())
        fmap.append((cst, F(j)))

    def subst(term, i):
        if fmap:
            term = z3.substitute(term, *fmap)
        return z3.substitute(term, (j, to_int(i)))

    if base_cond is not None:
        vals = [(z3.And(base_cond(j), g), v) for g, v in vals]
        raises = [(z3.And(base_cond(j), g), v) for g, v in raises]

    # exceptional leg: some element raises
    if raises:
        legs = len(raises) + 1
        k = outer.fork_free(legs)
        if k < len(raises):
            guard, exc = raises[k]
            w = outer.fresh("bad", z3.IntSort())
            outer.assume(z3.And(0 <= w, w < n, subst(guard, w)))
            # elements before w did not raise (evaluation order); not needed for soundness of the refutation
            raise PyRaise(exc.exc_cls, exc.exc_args, where=exc.where)
        jj = z3.Int(_fresh("gq"))
        for guard, exc in raises:
            outer.assume(z3.ForAll([jj], z3.Implies(z3.And(0 <= jj, jj < n), z3.Not(subst(guard, jj)))))
    if not vals:
        return SFiltered(n, lambda i: z3.BoolVal(False), lambda i: z3.IntVal(0))
    sample = vals[0][1]
    from .engine import SStr, _as_sstr

    if all(isinstance(v, (str, SStr)) and not isinstance(v, bool) for _, v in vals):
        def conv(v):
            z = _as_sstr(v).z3()
            if z is None:
                raise Unsupported("string element without z3 form in a comprehension over a symbolic sequence")
            return z
    elif not all(is_num(v) for _, v in vals):
        # elements are objects / tuples: keep the filter condition as a term and re-evaluate the element lazily, inline,
        # in the consumer's interpreter (the consumer has cond(i) on its path, so the skip/raise legs are infeasible there)
        cond_t = z3.Or(*[g for g, _ in vals])

        def elt_it(it2, i, seq=seq, gen=gen, node=node, frame=frame, getter=getter):
            fr = Frame(frame.fn, {}, frame.node, frame.qn)
            fr.globals, fr.cells, fr.parent = frame.globals, frame.cells, frame
            it2.assign(gen.target, seq.elt_it(it2, i) if getattr(seq, "elt_it", None) is not None else getter(i), fr)
            for cnd in gen.ifs:
                if not it2.truth(it2.eval(cnd, fr)):
                    raise Infeasible()
            return it2.eval(node.elt, fr)

        res = SFiltered(n, lambda i: subst(cond_t, i), None, name="comp(%s)" % seq.name)
        res.objects = True
        res.elt_it = elt_it
        return res
    else:
        allint = all(is_intlike(v) for _, v in vals)
        conv = to_int if allint else to_real
    cond_t = z3.Or(*[g for g, _ in vals])
    elt_t = conv(vals[-1][1])
    for g, v in reversed(vals[:-1]):
        elt_t = z3.If(g, conv(v), elt_t)
    res = SFiltered(n, lambda i: subst(cond_t, i), lambda i: subst(elt_t, i), name="comp(%s)" % seq.name)
    outer.ghost.setdefault("filtered", []).append(res)
    return res


def generator_filter_loop(it, node, frame, seq):
    """`for x in <symbolic sequence>: ... yield x ...` inside a generator: summarised as the filtered
    subsequence (same order).  Each iteration may yield the loop element at most once and must not
    touch other state; anything else is Unsupported."""
    if isinstance(seq, SFiltered):
        n, base_cond, getter = seq.n, seq.cond, seq.elt
    else:
        n, base_cond, getter = to_int(seq.length), None, seq.get
    j = z3.Int(_fresh("gy"))
    outer = it.path
    results = []
    mapped = [False]
    work = [[]]
    while work:
        prefix = work.pop()
        p = Path(prefix, outer.timeout)
        p.pc = list(outer.pc) + [j >= 0, j < n] + ([base_cond(j)] if base_cond is not None else [])
        p.n = outer.n + 700 * (len(results) + 1)
        p.assumed = outer.assumed
        base = len(p.pc)
        sub = type(it)(p, loop_specs=it.loop_specs, summaries=it.summaries)
        sub.depth, sub.active = max(1, it.depth), list(getattr(it, 'active', []))
        fr = Frame(frame.fn, dict(frame.locals), frame.node, frame.qn)
        fr.globals, fr.cells, fr.parent = frame.globals, frame.cells, frame.parent
        ys = []
        fr.locals["__yield__"] = ys
        elem = seq.elt_it(sub, j) if getattr(seq, "elt_it", None) is not None else getter(j)
        try:
            sub.assign(node.target, elem, fr)
            try:
                sub.exec_block(node.body, fr)
            except Exception as e:
                if type(e).__name__ == "_Continue":
                    pass
                else:
                    raise
            if len(ys) > 1:
                raise Unsupported("generator loop yields more than once per element")
            if ys and ys[0] is not elem:
                mapped[0] = True
            results.append((p.pc[base:], bool(ys)))
        except Infeasible:
            pass
        except PyRaise as e:
            results.append((p.pc[base:], e))
        work.extend(p.pending)
    raises = [(g, r) for g, r in results if isinstance(r, PyRaise)]
    if raises:
        k = outer.fork_free(len(raises) + 1)
        if k < len(raises):
            g, e = raises[k]
            w = outer.fresh("bad", z3.IntSort())
            outer.assume(z3.And(0 <= w, w < n, *[z3.substitute(x, (j, w)) for x in g]))
            raise PyRaise(e.exc_cls, e.exc_args)
        jj = z3.Int(_fresh("gq"))
        for g, e in raises:
            cond = z3.And(*g) if g else z3.BoolVal(True)
            outer.assume(z3.ForAll([jj], z3.Implies(z3.And(0 <= jj, jj < n), z3.Not(z3.substitute(cond, (j, jj))))))
    yes = [z3.And(*g) if g else z3.BoolVal(True) for g, r in results if r is True]
    cond_t = z3.Or(*yes) if yes else z3.BoolVal(False)
    if base_cond is not None:
        cond_t = z3.And(base_cond(j), cond_t)
    res = SFiltered(n, lambda i: z3.substitute(cond_t, (j, to_int(i))), getter, name="yielded(%s)" % getattr(seq, "name", "seq"))
    res.objects = True
    if mapped[0] or getattr(seq, "elt_it", None) is not None:
        # the value yielded is computed from the element: re-run the loop body inline for index i in the consumer
        def elt_it(it2, i, seq=seq, node=node, frame=frame, getter=getter):
            fr = Frame(frame.fn, dict(frame.locals), frame.node, frame.qn)
            fr.globals, fr.cells, fr.parent = frame.globals, frame.cells, frame.parent
            ys = []
            fr.locals["__yield__"] = ys
            it2.assign(node.target, seq.elt_it(it2, i) if getattr(seq, "elt_it", None) is not None else getter(i), fr)
            try:
                it2.exec_block(node.body, fr)
            except Exception as e:
                if type(e).__name__ != "_Continue":
                    raise
            if len(ys) != 1:
                raise Infeasible()
            return ys[0]

        res.elt = None
        res.elt_it = elt_it
    else:
        res.elt_it = lambda it2, i: getter(i)
    return res


def permuted(it, src):
    """sorted(<sequence of objects / tuples>): a permutation of the elements that pass the filter.  Only the permutation
    property is assumed (ORG: output position -> input index is a bijection onto the passing indices); nothing about the order."""
    it.path.assumed.add("sorted() returns a permutation of its input (every element exactly once); the order itself is not used")
    L = it.path.fresh("plen", z3.IntSort())
    org = z3.Function(_fresh("porg"), z3.IntSort(), z3.IntSort())
    pos = z3.Function(_fresh("ppos"), z3.IntSort(), z3.IntSort())
    a, j = z3.Int(_fresh("pa")), z3.Int(_fresh("pj"))
    it.path.assume(z3.And(
        L >= 0, L <= src.n,
        z3.ForAll([a], z3.Implies(z3.And(0 <= a, a < L), z3.And(0 <= org(a), org(a) < src.n, src.cond(org(a)), pos(org(a)) == a))),
        z3.ForAll([j], z3.Implies(z3.And(0 <= j, j < src.n, src.cond(j)), z3.And(0 <= pos(j), pos(j) < L, org(pos(j)) == j))),
        # cardinality: when every input element passes the filter the output is as long as the input
        z3.Implies(z3.ForAll([j], z3.Implies(z3.And(0 <= j, j < src.n), src.cond(j))), L == src.n),
    ))
    res = SFiltered(L, lambda i: z3.BoolVal(True), None, name="sorted(%s)" % src.name)
    res.objects = True
    get = src.elt_it if getattr(src, "elt_it", None) is not None else (lambda it2, i: src.elt(i))
    res.elt_it = lambda it2, i: get(it2, org(to_int(i)))
    res.org, res.pos, res.length_term = org, pos, L
    it.path.ghost.setdefault("permuted", []).append(res)
    return res

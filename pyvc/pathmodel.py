"""ASSUMED contracts of `posixpath` on structured path strings (DESIGN.md 5/C19, Appendix B).

A path is an `SStr` whose "/" characters occur only in literal pieces; every symbolic piece (Atom)
excludes "/" (and, for name atoms, "."), so segment boundaries are syntactically known and a
segment can be classified as "", ".", ".." or a proper name without case analysis.  The functions
below implement split / splitext / join / normpath / abspath / relpath on that representation,
forking on segment equalities (z3 strings) where relpath needs the common prefix.  Each is probed
against the real posixpath by contracts/c19.py's native job."""
from __future__ import annotations

import posixpath

import z3

from .engine import Atom, FmtInt, PyRaise, SStr, Unsupported, _as_sstr, _mkstr, deep_concrete, model


def _pieces(s):
    return list(_as_sstr(s).parts)


def _check_atoms(parts):
    for p in parts:
        if isinstance(p, Atom) and "/" not in p.excludes:
            raise Unsupported("path piece %r may contain '/'" % (p,))
        if isinstance(p, FmtInt):
            continue


def segments(s):
    """(absolute, [segment pieces...]) -- split the structured string at '/' characters."""
    parts = _pieces(s)
    _check_atoms(parts)
    segs = [[]]
    for p in parts:
        if isinstance(p, str):
            chunks = p.split("/")
            segs[-1].append(chunks[0]) if chunks[0] else None
            for ch in chunks[1:]:
                segs.append([ch] if ch else [])
        else:
            segs[-1].append(p)
    absolute = bool(parts) and isinstance(parts[0], str) and parts[0].startswith("/")
    return absolute, segs


def seg_kind(seg):
    """'' | '.' | '..' | 'name' for one segment (list of pieces)."""
    if not seg:
        return ""
    if all(isinstance(p, str) for p in seg):
        lit = "".join(seg)
        if lit in (".", ".."):
            return lit
        return "name"
    for p in seg:
        if isinstance(p, FmtInt):
            return "name"
        if isinstance(p, Atom) and p.nonempty and "." in p.excludes:
            return "name"
        if isinstance(p, str) and any(ch != "." for ch in p):
            return "name"
    raise Unsupported("segment %r could be a dot segment" % (seg,))


def render(absolute, segs):
    out = []
    if absolute:
        out.append("/")
    for i, seg in enumerate(segs):
        if i:
            out.append("/")
        out.extend(seg)
    return _mkstr(out)


def _concrete(args):
    return all(isinstance(a, str) for a in args)


@model(posixpath.split)
def m_split(it, args, kw):
    p = args[0]
    if isinstance(p, str):
        return it.native(posixpath.split, [p], {})
    it.path.assumed.add("posixpath.split(p): cut at the last '/', head without trailing slashes unless it is all slashes")
    parts = _pieces(p)
    _check_atoms(parts)
    # locate last "/" in the literal pieces
    for i in range(len(parts) - 1, -1, -1):
        if isinstance(parts[i], str) and "/" in parts[i]:
            k = parts[i].rfind("/")
            head = parts[:i] + [parts[i][: k + 1]]
            tail = [parts[i][k + 1:]] + parts[i + 1:]
            hs = _as_sstr(_mkstr(head))
            if hs.is_literal():
                h = hs.literal()
                if h and h != "/" * len(h):
                    h = h.rstrip("/")
                return (h, _mkstr(tail))
            hp = list(hs.parts)
            while hp and isinstance(hp[-1], str) and hp[-1].endswith("/"):
                hp[-1] = hp[-1].rstrip("/")
                if not hp[-1]:
                    hp.pop()
            return (_mkstr(hp), _mkstr(tail))
    return ("", p)


@model(posixpath.splitext)
def m_splitext(it, args, kw):
    p = args[0]
    if isinstance(p, str):
        return it.native(posixpath.splitext, [p], {})
    it.path.assumed.add("posixpath.splitext(p): split at the last '.' of the last segment, leading dots of that segment excluded")
    parts = _pieces(p)
    _check_atoms(parts)
    # last segment start
    start = 0
    for i in range(len(parts) - 1, -1, -1):
        if isinstance(parts[i], str) and "/" in parts[i]:
            k = parts[i].rfind("/")
            parts = parts[:i] + [parts[i][: k + 1], parts[i][k + 1:]] + parts[i + 1:]
            start = i + 1
            break
    seg = parts[start:]
    for p_ in seg:
        if isinstance(p_, Atom) and "." not in p_.excludes:
            raise Unsupported("splitext: piece %r may contain '.'" % (p_,))
    # find last '.' in literal pieces of seg
    for i in range(len(seg) - 1, -1, -1):
        if isinstance(seg[i], str) and "." in seg[i]:
            k = seg[i].rfind(".")
            root = seg[:i] + [seg[i][:k]]
            ext = [seg[i][k:]] + seg[i + 1:]
            # a dot that is part of the leading dots of the segment does not count
            lead = "".join(x for x in root if isinstance(x, str)) if all(isinstance(x, str) for x in root) else None
            if lead is not None and lead.strip(".") == "":
                return (p, "")
            return (_mkstr(parts[:start] + root), _mkstr(ext))
    return (p, "")


@model(posixpath.join)
def m_join(it, args, kw):
    if _concrete(args):
        return it.native(posixpath.join, args, {})
    it.path.assumed.add("posixpath.join(a, *p): a component starting with '/' restarts the path; otherwise components are joined with one '/'")
    path = args[0]
    for b in args[1:]:
        bp = _pieces(b)
        if bp and isinstance(bp[0], str) and bp[0].startswith("/"):
            path = b
            continue
        if bp and not isinstance(bp[0], str):
            first = bp[0]
            if not (isinstance(first, FmtInt) or (isinstance(first, Atom) and "/" in first.excludes)):
                raise Unsupported("join: component may start with '/'")
        pp = _pieces(path)
        if not pp:
            path = b
        elif isinstance(pp[-1], str) and pp[-1].endswith("/"):
            path = _mkstr(pp + bp)
        else:
            path = _mkstr(pp + ["/"] + bp)
    return path


def _normalise(absolute, segs):
    out = []
    for seg in segs:
        k = seg_kind(seg)
        if k in ("", "."):
            continue
        if k == "..":
            if out and seg_kind(out[-1]) != "..":
                out.pop()
            elif not absolute:
                out.append(seg)
            continue
        out.append(seg)
    return out


@model(posixpath.normpath)
def m_normpath(it, args, kw):
    p = args[0]
    if isinstance(p, str):
        return it.native(posixpath.normpath, [p], {})
    it.path.assumed.add("posixpath.normpath: RFC 3986-style removal of '', '.', and 'x/..' segments")
    absolute, segs = segments(p)
    out = _normalise(absolute, segs[1:] if absolute else segs)
    if not out:
        return "/" if absolute else "."
    return render(absolute, out)


@model(posixpath.abspath)
def m_abspath(it, args, kw):
    p = args[0]
    if isinstance(p, str):
        return it.native(posixpath.abspath, [p], {})
    absolute, segs = segments(p)
    if not absolute:
        raise Unsupported("abspath of a relative symbolic path (depends on the process working directory)")
    return m_normpath(it, [p], {})


def _seg_eq(it, a, b):
    """fork on equality of two name segments (True/False)."""
    from .engine import str_eq

    sa, sb = SStr(a), SStr(b)
    try:
        r = str_eq(sa, sb)
    except Unsupported:
        za, zb = sa.z3(), sb.z3()
        if za is None or zb is None:
            raise
        r = za == zb
    if isinstance(r, bool):
        return r
    return it.path.branch(r)


@model(posixpath.relpath)
def m_relpath(it, args, kw):
    path, start = args[0], (args[1] if len(args) > 1 else kw.get("start"))
    if isinstance(path, str) and isinstance(start, str):
        return it.native(posixpath.relpath, [path, start], {})
    it.path.assumed.add("posixpath.relpath(p, start) for absolute paths: '..' for every segment of start after the common prefix, then the rest of p ('.' if empty)")
    pa, ps = segments(path)
    sa, ss = segments(start)
    if not (pa and sa):
        raise Unsupported("relpath on relative symbolic paths")
    p = _normalise(True, ps[1:])
    s = _normalise(True, ss[1:])
    k = 0
    while k < min(len(p), len(s)) and _seg_eq(it, p[k], s[k]):
        k += 1
    rel = [[".."]] * (len(s) - k) + p[k:]
    if not rel:
        return "."
    return render(False, rel)

"""Driver: `python -m pyvc.run <Cnn> [--tier quick|thorough]`.

exit 0 property held on everything decided / 1 violation (VIOLATION line) / 3 checker error.
(Undischarged-but-not-refuted obligations do not raise an alarm; they downgrade the evidence
level from `proof` to `other` and are listed -- DESIGN.md 2.4.)
"""
from __future__ import annotations

import argparse
import hashlib
import importlib
import json
import multiprocessing as mp
import os
import sys
import time
import traceback

ROOT = os.path.dirname(os.path.dirname(os.path.abspath(__file__)))
REPLAYS = os.path.join(ROOT, "replays")
EVIDENCE = os.path.join(ROOT, "evidence")

PROP_MODULES = {
    "C01": ["contracts.c01"], "C02": ["contracts.c02"], "C03": ["contracts.c03"], "C04": ["contracts.c04"],
    "C05": ["contracts.c05"], "C06": ["contracts.c06"], "C07": ["contracts.c07"], "C08": ["contracts.c08"],
    "C09": ["contracts.c09"], "C10": ["contracts.c10"], "C11": ["contracts.c11"], "C12": ["contracts.c12"],
    "C13": ["contracts.c13"], "C14": ["contracts.c14"], "C15": ["contracts.c15"], "C16": ["contracts.c16"],
    "C17": ["contracts.c17"], "C18": ["contracts.c18"], "C19": ["contracts.c19"], "C20": ["contracts.c20"],
}


def load_known():
    p = os.path.join(ROOT, "known_findings.json")
    if not os.path.exists(p):
        return []
    with open(p) as f:
        return json.load(f).get("findings", [])


def _worker(args):
    modname, cname, both, tier, seed = args
    os.environ["VERIF_TIER"] = tier
    try:
        from pyvc import verify

        mod = importlib.import_module(modname)
        for cons in verify.REGISTRY.values():
            for con in cons:
                if con.name == cname:
                    return verify.run_contract(con, both=both)
        # non-SMT jobs (ground / bounded / analysis) registered by the module
        jobs = getattr(mod, "JOBS", {})
        if cname in jobs:
            try:
                return jobs[cname](tier=tier, seed=seed)
            except Exception as e:
                # a bounded native job drives the real library: an exception escaping from library code (innermost frame under
                # the repository) on inputs the job builds itself is a failing input, not a checker fault
                tb = traceback.extract_tb(e.__traceback__)
                inner = tb[-1].filename if tb else ""
                repo_src = os.path.realpath(os.environ.get("PPTX_REPO", "/repo"))
                if os.path.realpath(inner).startswith(repo_src + os.sep):
                    where = "%s:%d in %s" % (os.path.relpath(inner, repo_src), tb[-1].lineno, tb[-1].name)
                    calls = [f for f in tb if not os.path.realpath(f.filename).startswith(repo_src + os.sep)]
                    site = "%s:%d" % (os.path.basename(calls[-1].filename), calls[-1].lineno) if calls else "?"
                    name = "%s.library_exception" % cname
                    prop = cname.split(".")[0]
                    return {"contract": cname, "prop": prop, "status": "ok", "paths": 0, "assumed": [], "functions": {}, "notes": [], "solver_s": 0.0, "wall_s": 0.0,
                            "obligations": [{"name": name, "base": name, "kind": "bounded", "status": "refuted", "backend": "native", "time": 0, "path": 0, "model": None,
                                             "replay": {"confirmed": True, "witness_class": "library-exception",
                                                        "detail": "the job's own well-formed input made the library raise %r at %s (job line %s)" % (e, where, site)}}],
                            "bounded": {"name": cname, "bound": "aborted by a library exception", "evaluations": 0, "samples": [], "counted_as_proved": False}}
                raise
        return {"contract": cname, "status": "error", "error": "contract not found", "obligations": []}
    except Exception:
        return {"contract": cname, "status": "error", "error": traceback.format_exc(), "obligations": [],
                "paths": 0, "assumed": [], "functions": {}, "solver_s": 0.0, "wall_s": 0.0, "notes": []}


def main(argv=None):
    ap = argparse.ArgumentParser()
    ap.add_argument("prop")
    ap.add_argument("--tier", default=os.environ.get("VERIF_TIER") or "quick")
    ap.add_argument("--only", default=None, help="substring filter on contract names (debugging)")
    ap.add_argument("--jobs", type=int, default=int(os.environ.get("PYVC_JOBS", "16")))
    ap.add_argument("--no-evidence", action="store_true")
    ap.add_argument("-v", action="store_true")
    a = ap.parse_args(argv)
    prop = a.prop.upper()
    tier = a.tier if a.tier in ("quick", "thorough") else "quick"
    seed = int(os.environ.get("VERIF_SEED", "0") or 0)
    t0 = time.time()
    sys.path.insert(0, ROOT)
    from pyvc import verify

    names = []
    meta = {}
    try:
        for modname in PROP_MODULES[prop]:
            mod = importlib.import_module(modname)
            meta = getattr(mod, "META", meta)
            for con in verify.REGISTRY.get(prop, []):
                if con.tier == "thorough" and tier != "thorough":
                    continue
                names.append((modname, con.name))
            for j in getattr(mod, "JOBS", {}):
                names.append((modname, j))
    except Exception:
        traceback.print_exc()
        print("CHECKER-ERROR property=%s could not load contracts" % prop)
        return 3
    seen = set()
    names = [n for n in names if not (n in seen or seen.add(n))]
    if a.only:
        names = [n for n in names if a.only in n[1]]
    both = tier == "thorough"
    jobs = [(m, c, both, tier, seed) for m, c in names]
    if not jobs:
        print("CHECKER-ERROR property=%s has no contracts" % prop)
        return 3
    ctx = mp.get_context("fork")
    with ctx.Pool(min(a.jobs, len(jobs))) as pool:
        results = pool.map(_worker, jobs, chunksize=1)
    # an undecided obligation is re-tried in fresh processes (the solver's running time on one formula varies between processes,
    # seconds or never): the first attempt without an undecided obligation stands; a refutation is never re-tried away
    def shaky(r):
        obs = r.get("obligations", [])
        return any(o.get("status") == "unknown" and o.get("kind") not in ("undecidable", "cover", "mustfail") for o in obs) and not any(o.get("status") == "refuted" for o in obs)

    for attempt in range(2):
        again = [i for i, r in enumerate(results) if shaky(r)]
        if not again:
            break
        with ctx.Pool(min(a.jobs, len(again)), maxtasksperchild=1) as pool:
            redo = pool.map(_worker, [jobs[i] for i in again], chunksize=1)
        for i, r in zip(again, redo):
            if not shaky(r) or attempt == 1:
                r.setdefault("notes", [])
                if isinstance(r.get("notes"), list):
                    r["notes"].append("re-run %d time(s) after an undecided obligation" % (attempt + 1))
                results[i] = r
    return report(prop, tier, seed, results, meta, t0, write=not a.no_evidence and not a.only, verbose=a.v)


def report(prop, tier, seed, results, meta, t0, write=True, verbose=False):
    known = [k for k in load_known() if k.get("property") == prop and k.get("status", "known") == "known"]
    os.makedirs(os.path.join(REPLAYS, prop), exist_ok=True)
    n_obl = n_dis = 0
    by_backend = {}
    solver_s = 0.0
    violations = []
    known_hits = []
    undecided = []
    errors = []
    functions = {}
    assumed = set()
    bounded = []
    samples = []
    unsupported = []
    extra_cov = {}
    refuted = []
    n_known_obl = 0
    vac_ok = 0
    vac_unknown = []
    for r in results:
        if r.get("status") == "error":
            errors.append((r.get("contract"), r.get("error")))
            continue
        if r.get("status") == "unsupported":
            unsupported.append({"contract": r.get("contract"), "reason": r.get("error")})
            for ob in r.get("obligations", []):
                if ob.get("status") == "refuted":
                    refuted.append(ob)
            continue
        functions.update(r.get("functions", {}))
        assumed.update(r.get("assumed", []))
        solver_s += r.get("solver_s", 0.0)
        if r.get("bounded"):
            bounded.append(r["bounded"])
        for k, v in (r.get("coverage") or {}).items():
            extra_cov.setdefault(k, []).append(v) if not isinstance(v, list) else extra_cov.setdefault(k, []).extend(v)
        for ob in r.get("obligations", []):
            if ob["kind"] in ("cover", "mustfail"):
                # vacuity checks are accounted separately from proof obligations
                if ob["status"] == "discharged":
                    vac_ok += 1
                    continue
                if ob["status"] == "unknown":
                    vac_unknown.append(ob["name"])
                    continue
            if ob["kind"] == "bounded":
                # bounded stand-ins are reported, never counted as proved
                if ob["status"] == "refuted":
                    pass
                else:
                    continue
            else:
                n_obl += 1
            st = ob["status"]
            if st == "discharged":
                n_dis += 1
                by_backend[ob.get("backend") or "?"] = by_backend.get(ob.get("backend") or "?", 0) + 1
                if len(samples) < 6 and ob["kind"] in ("post", "inv", "ground"):
                    samples.append({"obligation": ob["name"], "claim": ob.get("claim", "")[:200], "status": st,
                                    "backend": ob.get("backend")})
                continue
            if ob["kind"] in ("cover", "mustfail"):
                if st == "refuted":
                    errors.append((r["contract"], "vacuity check %s failed (%s)" % (ob["name"], ob["kind"])))
                else:
                    vac_unknown.append(ob["name"])
                continue
            if st == "unknown":
                undecided.append(ob)
                continue
            # refuted
            refuted.append(ob)
    # group refuted obligations by base name: the paths of one obligation are witnesses of the same claim
    by_base = {}
    for ob in refuted:
        by_base.setdefault(ob["base"], []).append(ob)
    for base, obs in by_base.items():
        hit = None
        hit_ob = None
        for k in known:
            if k.get("obligation") != base:
                continue
            for ob in obs:
                rp = ob.get("replay") or {}
                if (rp.get("confirmed") and (not k.get("witness_class") or k.get("witness_class") == rp.get("witness_class"))) or k.get("accept_unreplayed"):
                    hit, hit_ob = k, ob
                    break
            if hit:
                break
        if hit is not None:
            # every confirmed witness must be of the recorded class; a different class is a different violation
            others = [ob for ob in obs if (ob.get("replay") or {}).get("confirmed") and hit.get("witness_class")
                      and (ob.get("replay") or {}).get("witness_class") != hit.get("witness_class")]
            known_hits.append((hit, hit_ob))
            violations.extend(others)
            # a recorded finding is carved out of the claim: its obligations are listed, not counted
            n_known_obl += len([o for o in obs if o not in others and o["kind"] != "bounded"])
        else:
            # prefer a confirmed witness for the report
            obs.sort(key=lambda o: not (o.get("replay") or {}).get("confirmed"))
            violations.extend(obs)
    rc = 0
    lines = []
    seen_known = set()
    for hit, ob in known_hits:
        key = (hit.get("id"), ob["base"])
        if key in seen_known:
            continue
        seen_known.add(key)
        lines.append("KNOWN-FINDING: property=%s %s [%s] %s" % (prop, hit.get("id", ""), ob["base"], hit.get("what", "")))
    seen_v = set()
    for ob in violations:
        if ob["base"] in seen_v:
            continue
        seen_v.add(ob["base"])
        rp = ob.get("replay") or {}
        path = os.path.join(REPLAYS, prop, _safe(ob["name"]) + ".json")
        with open(path, "w") as f:
            json.dump({"property": prop, "obligation": ob["name"], "kind": ob["kind"], "model": ob.get("model"),
                       "claim": ob.get("claim"), "path_condition": ob.get("pc"), "replay": rp,
                       "info": ob.get("info"), "tier": tier}, f, indent=1, default=repr)
        confirmed = bool(rp.get("confirmed"))
        tail = "" if confirmed else " no-failing-input-found"
        lines.append("VIOLATION property=%s replay=%s obligation=%s%s" % (prop, path, ob["name"], tail))
        rc = 1
    for c, e in errors:
        lines.append("CHECKER-ERROR property=%s contract=%s: %s" % (prop, c, (e or "").strip().splitlines()[-1] if e else ""))
        if verbose and e:
            lines.append(e)
    if errors and rc == 0:
        rc = 3
    level = "proof"
    if undecided or unsupported or n_obl == 0 or n_dis != n_obl - 0:
        pass
    proof_ok = (n_obl > 0 and n_dis == n_obl and not unsupported)
    wall = time.time() - t0
    n_obl -= n_known_obl
    cov = {
        "obligations": n_obl, "discharged": n_dis,
        "obligations_carved_out_as_known_findings": n_known_obl,
        "checker_cmd": "/verif/check %s --tier %s   (pyvc: ast->VC generator over the real source + z3 %s, cvc5 fallback)" % (prop, tier, _z3v()),
        "trusted_base": sorted(assumed) + list(meta.get("trusted_base", [])),
        "functions_under_contract": functions,
        "n_functions_under_contract": len(functions),
        "vacuity_checks": {"satisfiable": vac_ok, "undecided": len(vac_unknown), "undecided_names": vac_unknown[:20]},
        "by_backend": by_backend, "solver_time_s": round(solver_s, 3),
        "undischarged": [{"obligation": o["name"], "status": o["status"], "kind": o["kind"]} for o in undecided][:50],
        "unsupported_contracts": unsupported,
        "known_findings_reported": [{"id": h.get("id"), "obligation": o["base"]} for h, o in known_hits],
        "bounded_checks": bounded,
        "residual": meta.get("residual", []),
        "samples": samples or [{"note": "no discharged obligation to sample"}],
        "contracts": [{"contract": r.get("contract"), "status": r.get("status"), "paths": r.get("paths"),
                       "obligations": len(r.get("obligations", [])), "wall_s": round(r.get("wall_s", 0.0), 2)} for r in results],
    }
    for k, v in extra_cov.items():
        cov[k] = all(v) if v and all(isinstance(x, bool) for x in v) else v
    proof_ok = (n_obl > 0 and n_dis == n_obl and not unsupported and not violations)
    ev_level = "proof" if proof_ok else "other"
    if ev_level == "other":
        cov["explanation"] = ("Deductive obligations: %d generated, %d discharged. Level downgraded from proof because some "
                              "obligation is undischarged or a contract is outside the generator's subset; see undischarged / "
                              "unsupported_contracts." % (n_obl, n_dis))
    if violations or known_hits:
        cov["explanation"] = (cov.get("explanation", "") + " Refuted obligations: %d new (VIOLATION), %d carved out as known findings "
                              "(KNOWN-FINDING lines; not counted in obligations/discharged)." % (len(seen_v), n_known_obl)).strip()
    ev = {
        "property_id": prop, "tier": tier, "seed": seed, "level": ev_level, "coverage": cov,
        "assumptions": sorted(assumed) + list(meta.get("assumptions", [])),
        "wall_s": round(wall, 2), "violations": len(seen_v),
    }
    if write and rc != 3:
        # the evidence must be an instance of the evidence schema: a malformed report is a checker error, not a pass
        try:
            import jsonschema

            sch = "/root/.vp/EVIDENCE.schema.json"
            if os.path.exists(sch):
                jsonschema.validate(json.loads(json.dumps(ev, default=repr)), json.load(open(sch)))
        except ImportError:
            pass
        except Exception as e:
            print("CHECKER-ERROR property=%s evidence does not match the schema: %s" % (prop, str(e).splitlines()[0]))
            rc = 3 if rc == 0 else rc
        os.makedirs(EVIDENCE, exist_ok=True)
        with open(os.path.join(EVIDENCE, prop + ".json"), "w") as f:
            json.dump(ev, f, indent=1, default=repr)
    if verbose:
        for r in sorted(results, key=lambda r: -r.get("wall_s", 0))[:8]:
            print("  SLOW %-90s wall=%.1fs solver=%.1fs paths=%s" % (r.get("contract"), r.get("wall_s", 0), r.get("solver_s", 0), r.get("paths")))
    for ln in lines:
        print(ln)
    print("%s tier=%s contracts=%d obligations=%d discharged=%d undecided=%d unsupported=%d known=%d violations=%d solver=%.1fs wall=%.1fs level=%s"
          % (prop, tier, len(results), n_obl, n_dis, len(undecided), len(unsupported), len(seen_known), len(seen_v), solver_s, wall, ev_level))
    if verbose:
        for o in undecided:
            print("  UNDECIDED", o["name"], o.get("claim", "")[:200])
        for u in unsupported:
            print("  UNSUPPORTED", u)
        for o in violations:
            print("  REFUTED", o["name"], "model=", o.get("model"), "replay=", o.get("replay"))
        for h, o in known_hits:
            print("  KNOWN", o["name"], "model=", o.get("model"))
    return rc


def _safe(s):
    return "".join(ch if ch.isalnum() or ch in "._-" else "_" for ch in s)[:150]


def _z3v():
    try:
        import z3

        return z3.get_version_string()
    except Exception:
        return "?"


if __name__ == "__main__":
    sys.exit(main())

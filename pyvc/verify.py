"""Contract runner: explores the real function under a sidecar contract, discharges obligations.

A contract is a Python callable `body(c)`; it is re-run once per feasible path of the real code.
`c` (a Case) creates the symbolic pre-state, states `requires`, runs the real function through the
symbolic executor (`c.run`) and states `ensures` clauses over pre-state, post-state and result.
Every `ensures`, every loop-invariant / callee-precondition obligation raised during execution and
a vacuity check (`cover`) per path become named obligations that z3 (then cvc5) must discharge.
"""
from __future__ import annotations

import fractions
import os
import sys
import time
import zlib
import traceback

import z3

from . import engine, models  # noqa: F401  (models registers built-in contracts)
from .engine import Interp, Outcome, PyRaise, SObj, Unsupported, explore, to_bool


class ContractError(Exception):
    """The contract itself is malformed (checker error, exit 3)."""


REGISTRY = {}  # prop -> [Contract]


class Contract:
    def __init__(self, prop, name, body, replay=None, functions=(), doc="", max_paths=4000, expect_paths=None,
                 tier="quick", timeout_ms=None):
        self.prop = prop
        self.name = name
        self.body = body
        self.replay = replay
        self.functions = tuple(functions)
        self.doc = doc
        self.max_paths = max_paths
        self.expect_paths = expect_paths
        self.tier = tier
        self.timeout_ms = timeout_ms


def contract(prop, name, replay=None, functions=(), doc="", **kw):
    def deco(body):
        c = Contract(prop, name, body, replay=replay, functions=functions, doc=doc or (body.__doc__ or ""), **kw)
        REGISTRY.setdefault(prop, []).append(c)
        return body

    return deco


class Case:
    """Per-path view handed to a contract body."""

    def __init__(self, contract, path):
        self.contract = contract
        self.path = path
        self.interp = None
        self.loop_specs = {}
        self.summaries = {}
        self.reached_ensures = False
        self.ghost = {}

    # -- symbolic inputs --
    def int(self, name):
        v = z3.Int(name)
        self.path.inputs[name] = v
        return v

    def real(self, name):
        v = z3.Real(name)
        self.path.inputs[name] = v
        return v

    def bool(self, name):
        v = z3.Bool(name)
        self.path.inputs[name] = v
        return v

    def obj(self, cls=None, name=None, **fields):
        return SObj(cls, name, **fields)

    def input(self, name, term):
        self.path.inputs[name] = term
        return term

    # -- clauses --
    def requires(self, cond):
        self.path.assume(to_bool(cond))

    def assume(self, cond, why):
        self.path.assumed.add(why)
        self.path.assume(to_bool(cond))

    def fork(self, conds):
        return self.path.fork(conds)

    def branch(self, cond):
        return self.path.branch(cond)

    def ensures(self, label, claim, **info):
        self.reached_ensures = True
        if isinstance(claim, bool):
            claim = z3.BoolVal(claim)
        self.path.oblige("%s.%s" % (self.contract.name, label), claim, kind="post", info=info)

    def lemma(self, label, claim):
        """Prove `claim` as its own obligation (under the current path condition), then use it as a
        hypothesis for the obligations that follow (proof hint; nothing is assumed unproved)."""
        self.path.oblige("%s.lemma.%s" % (self.contract.name, label), to_bool(claim), kind="post", info={"lemma": True})
        self.path.pc.append(to_bool(claim))

    def undecided(self, label, why):
        self.reached_ensures = True
        self.path.undecided("%s.%s" % (self.contract.name, label), why)

    def fails(self, label, why, **info):
        """Unconditional failure on this path (e.g. a forbidden exception exit was reached)."""
        self.reached_ensures = True
        info = dict(info)
        info["why"] = why
        self.path.oblige("%s.%s" % (self.contract.name, label), z3.BoolVal(False), kind="post", info=info)

    def mustfail(self, label, claim):
        """Sanity: `claim` must be refutable on this path (guards against vacuous contracts)."""
        self.path.oblige("%s.%s" % (self.contract.name, label), to_bool(claim), kind="mustfail")

    def note(self, text):
        self.path.notes.append(text)

    # -- running the real code --
    def run(self, fn, *args, **kwargs):
        it = Interp(self.path, loop_specs=self.loop_specs, summaries=self.summaries)
        self.interp = it
        try:
            v = it.call_function(fn, list(args), kwargs)
            return Outcome(self.path, value=v)
        except PyRaise as e:
            return Outcome(self.path, exc=e)

    def call(self, fn, *args, **kwargs):
        """Like run but through the general call dispatch (models, classes, bound methods)."""
        it = Interp(self.path, loop_specs=self.loop_specs, summaries=self.summaries)
        self.interp = it
        try:
            v = it.call(fn, list(args), kwargs)
            return Outcome(self.path, value=v)
        except PyRaise as e:
            return Outcome(self.path, exc=e)

    def getattr(self, obj, name):
        it = Interp(self.path, loop_specs=self.loop_specs, summaries=self.summaries)
        self.interp = it
        try:
            return Outcome(self.path, value=it.getattr(obj, name))
        except PyRaise as e:
            return Outcome(self.path, exc=e)

    def setattr(self, obj, name, v):
        it = Interp(self.path, loop_specs=self.loop_specs, summaries=self.summaries)
        self.interp = it
        try:
            it.setattr(obj, name, v)
            return Outcome(self.path)
        except PyRaise as e:
            return Outcome(self.path, exc=e)


# --------------------------------------------------------------------------------------------
# solving

XCHECK_EVERY = max(1, int(os.environ.get("VERIF_XCHECK_EVERY", "8")))
Z3_TIMEOUT_MS = int(os.environ.get("PYVC_Z3_TIMEOUT_MS", "10000"))


def _model_value(m, term):
    v = m.eval(term, model_completion=True)
    if z3.is_int_value(v):
        return v.as_long()
    if z3.is_rational_value(v):
        return fractions.Fraction(v.numerator_as_long(), v.denominator_as_long())
    if z3.is_algebraic_value(v):
        return float(v.approx(20).as_decimal(20).rstrip("?"))
    if z3.is_true(v):
        return True
    if z3.is_false(v):
        return False
    if z3.is_string_value(v):
        return _unescape_z3(v.as_string())
    return str(v)


def _unescape_z3(s):
    import re as _re

    return _re.sub(r"\\u\{([0-9a-fA-F]+)\}", lambda m: chr(int(m.group(1), 16)), s)


def jsonable(v):
    if isinstance(v, fractions.Fraction):
        if v.denominator == 1:
            return int(v)
        return {"frac": [v.numerator, v.denominator], "approx": float(v)}
    if isinstance(v, (list, tuple)):
        return [jsonable(x) for x in v]
    if isinstance(v, dict):
        return {str(k): jsonable(x) for k, x in v.items()}
    if isinstance(v, (int, float, str, bool)) or v is None:
        return v
    return repr(v)


def _has_quantifier(assertions):
    seen = set()
    todo = list(assertions)
    while todo:
        e = todo.pop()
        if z3.is_quantifier(e):
            return True
        k = e.get_id()
        if k in seen:
            continue
        seen.add(k)
        if z3.is_app(e):
            todo.extend(e.children())
    return False


def cvc5_check(smt2, timeout_ms=10000):
    """Run cvc5 (python API) on an SMT-LIB2 script; returns 'sat' | 'unsat' | 'unknown'."""
    try:
        import cvc5
    except Exception:  # pragma: no cover
        return "unknown"
    try:
        tm = cvc5.TermManager()
        slv = cvc5.Solver(tm)
        slv.setOption("tlimit-per", str(timeout_ms))
        slv.setOption("produce-models", "false")
        slv.setLogic("ALL")
        parser = cvc5.InputParser(slv)
        text = "\n".join(l for l in smt2.splitlines() if not l.startswith("(set-info") and not l.startswith("(set-logic"))
        parser.setStringInput(cvc5.InputLanguage.SMT_LIB_2_6, text, "q")
        sm = parser.getSymbolManager()
        res = "unknown"
        while True:
            cmd = parser.nextCommand()
            if cmd.isNull():
                break
            out = cmd.invoke(slv, sm)
            o = str(out).strip()
            if o in ("sat", "unsat", "unknown"):
                res = o
        return res
    except Exception:
        return "unknown"


def z3_fresh_check(smt2, timeout_ms=10000):
    """The same query in a fresh z3 process (the z3-solver wheel's own executable, the engine that is also linked in-process): the
    running time of z3 on one formula varies with what the process has solved before; a fresh process is the reproducible setting.
    Returns 'sat' | 'unsat' | 'unknown'."""
    import shutil
    import subprocess
    import tempfile

    exe = shutil.which("z3-new") or os.path.join(os.path.dirname(sys.executable), "z3")
    if not exe or not os.path.exists(exe):
        return "unknown"
    try:
        with tempfile.NamedTemporaryFile("w", suffix=".smt2", delete=False, dir=os.environ.get("TMPDIR") or None) as f_:
            f_.write(smt2)
            name = f_.name
        try:
            out = subprocess.run([exe, "-T:%d" % max(1, timeout_ms // 1000), name], capture_output=True, text=True, timeout=timeout_ms / 1000 + 10).stdout
        finally:
            os.unlink(name)
        for ln in out.splitlines():
            if ln.strip() in ("sat", "unsat", "unknown"):
                return ln.strip()
        return "unknown"
    except Exception:
        return "unknown"


def discharge(ob, inputs, both=False, timeout_ms=None):
    """Decide one obligation.  status in {'discharged','refuted','unknown'} (mustfail: inverted)."""
    t0 = time.time()
    if ob.kind == "undecidable":
        ob.status, ob.backend = "unknown", "none"
        return ob
    Z3_TIMEOUT_MS = timeout_ms or globals()["Z3_TIMEOUT_MS"]
    s = z3.Solver()
    s.set("timeout", Z3_TIMEOUT_MS)
    for c in ob.pc:
        s.add(c)
    if ob.kind == "cover":
        s.add(ob.claim)
    else:
        s.add(z3.Not(ob.claim))
    r = z3.unknown
    backend = "z3"
    if ob.kind in ("cover", "mustfail") and _has_quantifier(s.assertions()):
        # satisfiability of a quantified path condition is expensive to establish; the vacuity guard asks the
        # cheaper question "is it refutable by instantiation?" and reports `unknown` (never `sat`) otherwise
        s0 = z3.Solver()
        s0.set("timeout", 1500)
        s0.set("smt.mbqi", False)
        s0.set("smt.auto_config", False)
        for c in s.assertions():
            s0.add(c)
        r0 = s0.check()
        ob.backend = "z3(ematching)"
        ob.time = time.time() - t0
        ob.status = "refuted" if r0 == z3.unsat else ("discharged" if r0 == z3.sat else "unknown")
        return ob
    if ob.kind not in ("cover", "mustfail") and _has_quantifier(s.assertions()):
        # quantified VC: E-matching alone (no model-based instantiation) refutes the negated goal quickly when the
        # obligation holds; `unknown` falls through to the default configuration, which can also build models
        for seed in (0, 11, 23):
            s0 = z3.Solver()
            s0.set("timeout", min(Z3_TIMEOUT_MS, 4000))
            s0.set("smt.mbqi", False)
            s0.set("smt.auto_config", False)
            s0.set("random_seed", seed)
            s0.set("smt.random_seed", seed)
            for c in s.assertions():
                s0.add(c)
            r0 = s0.check()
            if r0 == z3.unsat:
                r = r0
                backend = "z3(ematching)"
                break
    if r == z3.unknown:
        if timeout_ms is not None and timeout_ms >= 30000:
            # a long explicit budget: a short in-process attempt, then the same query in a fresh z3 process with the full budget
            s1 = z3.Solver()
            s1.set("timeout", 12000)
            for c in s.assertions():
                s1.add(c)
            r = s1.check()
            if r != z3.unknown:
                s = s1
        else:
            r = s.check()
    res = str(r)
    if r == z3.unknown:
        # retry with different seeds, then cvc5
        for seed in ((7, 23) if timeout_ms is None else ()):
            s2 = z3.Solver()
            s2.set("timeout", Z3_TIMEOUT_MS)
            s2.set("random_seed", seed)
            for c in s.assertions():
                s2.add(c)
            r2 = s2.check()
            if r2 != z3.unknown:
                r, s, res = r2, s2, str(r2)
                break
        if r == z3.unknown:
            fres = z3_fresh_check(s.to_smt2(), Z3_TIMEOUT_MS)
            if fres in ("sat", "unsat"):
                res, backend = fres, "z3(fresh process)"
        if res == "unknown":
            cres = cvc5_check(s.to_smt2(), min(Z3_TIMEOUT_MS, 30000))
            if cres in ("sat", "unsat"):
                res, backend = cres, "cvc5"
    elif both and zlib.crc32(ob.name.encode()) % XCHECK_EVERY == 0:
        # thorough tier: independent second opinion on a fixed sample of the obligations (every XCHECK_EVERY-th by name hash); a short
        # budget -- a cvc5 timeout never changes the verdict
        cres = cvc5_check(s.to_smt2(), min(Z3_TIMEOUT_MS, 2500))
        ob.info["cvc5"] = cres
        if cres in ("sat", "unsat") and cres != res:
            ob.info["backend_disagreement"] = True
            res = "unknown"
        elif cres == res:
            backend = "z3+cvc5"
    ob.backend = backend
    ob.time = time.time() - t0
    if os.environ.get("PYVC_DUMP_SLOW") and (res == "unknown" or ob.time > 20):
        try:
            with open(os.path.join(os.environ["PYVC_DUMP_SLOW"], "%s.%s.smt2" % ("".join(ch if ch.isalnum() else "_" for ch in ob.name)[-120:], res)), "w") as f_:
                f_.write(s.to_smt2())
        except Exception:
            pass
    if ob.kind in ("cover", "mustfail"):
        # satisfiable is the good outcome
        if res == "sat":
            ob.status = "discharged"
        elif res == "unsat":
            ob.status = "refuted"
        else:
            ob.status = "unknown"
        return ob
    if res == "unsat":
        ob.status = "discharged"
    elif res == "sat":
        ob.status = "refuted"
        if backend.startswith("z3"):
            try:
                m = s.model()
                ob.model = {k: _model_value(m, v) for k, v in inputs.items()}
            except Exception:
                ob.model = None
        ob.info["smt2"] = s.to_smt2()[:20000]
    else:
        ob.status = "unknown"
        ob.info["smt2"] = s.to_smt2()[:20000]
    return ob



class ReplayCrash(Exception):
    """the replay harness itself failed (not the library): a checker error, never a verdict"""


def run_replay(con, model, rec):
    """Run the contract's native replay.  An exception escaping from *library* code (innermost frame under the repository)
    on the replay's own well-formed inputs is a failing input; an exception in the harness is a checker error."""
    import os

    try:
        return con.replay(model, rec)
    except Exception as e:
        tb = traceback.extract_tb(e.__traceback__)
        inner = os.path.realpath(tb[-1].filename) if tb else ""
        repo_src = os.path.realpath(os.environ.get("PPTX_REPO", "/repo"))
        if inner.startswith(repo_src + os.sep):
            return {"confirmed": True, "witness_class": "library-exception",
                    "detail": "the replay's own well-formed input made the library raise %r at %s:%d" % (e, os.path.relpath(inner, repo_src), tb[-1].lineno)}
        raise ReplayCrash("replay of %s crashed: %s" % (con.name, traceback.format_exc()[-1500:]))


def run_contract(con, both=False):
    """Explore + discharge one contract.  Returns a plain dict (picklable)."""
    t0 = time.time()
    engine.FUNCTIONS_SEEN.clear()
    out = {
        "contract": con.name, "prop": con.prop, "doc": (con.doc or "").strip().split("\n")[0],
        "obligations": [], "paths": 0, "status": "ok", "assumed": [], "functions": {}, "notes": [],
        "solver_s": 0.0, "wall_s": 0.0, "error": None,
    }
    assumed = set()

    def thunk(path):
        case = Case(con, path)
        con.body(case)
        return case

    try:
        results = explore(thunk, max_paths=con.max_paths, solver_timeout_ms=min(4000, con.timeout_ms or 4000))
    except Unsupported as e:
        out["status"] = "unsupported"
        out["error"] = str(e)
        out["functions"] = dict(engine.FUNCTIONS_SEEN)
        if con.replay is not None:
            # BOUNDED stand-in: the function left the generator's subset; search the contract's systematic native inputs
            rec = {"name": "%s.bounded_standin" % con.name, "base": "%s.bounded_standin" % con.name, "kind": "bounded", "backend": "native-bounded",
                   "time": 0, "path": -1, "info": {"why": "contract outside the supported subset: %s" % e}}
            rr = run_replay(con, {}, rec)
            rec["status"] = "refuted" if rr.get("confirmed") else "discharged"
            rec["replay"] = jsonable(rr)
            rec["model"] = None
            out["obligations"].append(rec)
        out["wall_s"] = time.time() - t0
        return out
    except ContractError as e:
        out["status"] = "error"
        out["error"] = "contract error: %s" % e
        out["wall_s"] = time.time() - t0
        return out
    except Exception:
        out["status"] = "error"
        out["error"] = traceback.format_exc()
        out["wall_s"] = time.time() - t0
        return out
    out["paths"] = len(results)
    if not results:
        out["status"] = "error"
        out["error"] = "vacuous: no feasible path (precondition unsatisfiable?)"
        out["wall_s"] = time.time() - t0
        return out
    if con.expect_paths is not None and len(results) < con.expect_paths:
        out["status"] = "error"
        out["error"] = "vacuity: %d paths explored, contract expects at least %d" % (len(results), con.expect_paths)
    names = {}
    any_ensures = False
    mustfail = {}
    live_paths = 0
    for pi, (path, case) in enumerate(results):
        assumed |= path.assumed
        out["notes"].extend(path.notes)
        any_ensures = any_ensures or (case is not None and case.reached_ensures) or (case is None and bool(path.obligations))
        # vacuity guard: the path condition (requires + branch conditions) is satisfiable
        cov = engine.Obligation("%s.cover" % con.name, z3.BoolVal(True), path.pc, kind="cover")
        discharge(cov, path.inputs, timeout_ms=min(con.timeout_ms or 3000, 3000))
        out["solver_s"] += cov.time
        if cov.status == "refuted":
            # the path condition is unsatisfiable (the cheap feasibility probe had timed out): not a path
            out["infeasible_paths"] = out.get("infeasible_paths", 0) + 1
            continue
        live_paths += 1
        obls = list(path.obligations)
        out["obligations"].append({"name": "%s.cover.p%d" % (con.name, pi), "base": "%s.cover" % con.name, "kind": "cover",
                                   "status": cov.status, "backend": cov.backend, "time": round(cov.time, 4), "path": pi, "claim": "path condition satisfiable"})
        for ob in obls:
            k = names.get(ob.name, 0)
            names[ob.name] = k + 1
            full = "%s.p%d" % (ob.name, pi) if len(results) > 1 else ob.name
            discharge(ob, path.inputs, both=both, timeout_ms=con.timeout_ms)
            if ob.info.get("overapprox") and ob.status == "discharged":
                # the claim was replaced by a necessary condition: it can refute, never prove
                ob.status = "unknown"
            out["solver_s"] += ob.time
            if ob.kind == "mustfail":
                # contract-level sanity: the weakened claim must be refutable on at least one path
                cur = mustfail.get(ob.name)
                rank = {"discharged": 2, "unknown": 1, "refuted": 0}[ob.status]
                if cur is None or rank > cur[0]:
                    mustfail[ob.name] = (rank, ob)
                continue
            rec = {"name": full, "base": ob.name, "kind": ob.kind, "status": ob.status, "backend": ob.backend,
                   "time": round(ob.time, 4), "path": pi}
            if ob.status != "discharged":
                rec["model"] = jsonable(ob.model) if ob.model is not None else None
                rec["info"] = {k: (v if isinstance(v, (str, int, float, bool)) else repr(v)) for k, v in ob.info.items()}
                rec["pc"] = [str(c)[:300] for c in ob.pc][:40]
                rec["claim"] = str(ob.claim)[:2000]
                if ob.status == "unknown" and ob.kind in ("post", "inv") and con.replay is not None and not ob.info.get("overapprox"):
                    # BOUNDED stand-in for an undecided obligation: the contract's native replay searches its
                    # systematic small inputs; a failing native input is a violation, anything else stays undecided
                    rr = run_replay(con, {}, rec)
                    if rr.get("confirmed"):
                        rec["status"] = "refuted"
                        rec["backend"] = "native-bounded"
                        rec["replay"] = jsonable(rr)
                    else:
                        rec["bounded_search"] = jsonable(rr)
                if ob.status == "refuted" and ob.kind in ("post", "inv") and con.replay is not None:
                    rr = run_replay(con, dict(ob.model or {}), rec)
                    rec["replay"] = jsonable(rr)
            else:
                rec["claim"] = str(ob.claim)[:300]
            out["obligations"].append(rec)
    for nm, (rank, ob) in mustfail.items():
        out["obligations"].append({"name": nm, "base": nm, "kind": "mustfail", "status": ob.status, "backend": ob.backend,
                                   "time": round(ob.time, 4), "path": -1, "claim": str(ob.claim)[:300]})
    if live_paths == 0 and out["status"] == "ok":
        out["status"] = "error"
        out["error"] = "vacuous: every explored path has an unsatisfiable path condition (contradictory requires?)"
    if not any_ensures and out["status"] == "ok":
        out["status"] = "error"
        out["error"] = "vacuous: no path reached an ensures clause"
    out["assumed"] = sorted(assumed)
    out["functions"] = dict(engine.FUNCTIONS_SEEN)
    out["wall_s"] = time.time() - t0
    return out

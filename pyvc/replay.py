"""`./check replay <file>`: re-run, on the current working tree of /repo, the contract (or bounded job) that owns the
obligation recorded in a replay file, and report whether that obligation is violated again.

exit 0: the obligation holds now;  exit 1: violated again (VIOLATION line);  exit 3: cannot be re-run."""
from __future__ import annotations

import importlib
import json
import os
import sys


def main(argv=None):
    argv = argv if argv is not None else sys.argv[1:]
    if not argv:
        print("usage: check replay <replay.json>")
        return 3
    path = argv[0]
    d = json.load(open(path))
    prop, obl = d.get("property"), d.get("obligation")
    print("replay file  : %s" % path)
    print("property     : %s" % prop)
    print("obligation   : %s" % obl)
    print("recorded     : model=%s" % json.dumps(d.get("model"))[:400])
    rp = d.get("replay") or {}
    print("recorded native verdict: confirmed=%s %s" % (rp.get("confirmed"), str(rp.get("detail"))[:600]))
    from pyvc import run, verify

    mods = run.PROP_MODULES.get(prop)
    if not mods:
        print("unknown property")
        return 3
    owner, job = None, None
    for modname in mods:
        mod = importlib.import_module(modname)
        for con in verify.REGISTRY.get(prop, []):
            if obl.startswith(con.name) and (owner is None or len(con.name) > len(owner.name)):
                owner = con
        for j in getattr(mod, "JOBS", {}):
            job = job or (mod, j)
    tier = d.get("tier", "quick")
    os.environ["VERIF_TIER"] = tier
    results = []
    if owner is not None:
        print("re-running contract %s ..." % owner.name)
        results.append(verify.run_contract(owner, both=(tier == "thorough")))
    else:
        for modname in mods:
            mod = importlib.import_module(modname)
            for j, fn in getattr(mod, "JOBS", {}).items():
                print("re-running job %s ..." % j)
                results.append(fn(tier=tier, seed=int(os.environ.get("VERIF_SEED", "0") or 0)))
    base = obl
    hit = None
    for r in results:
        for ob in r.get("obligations", []):
            if ob["name"] == obl or ob.get("base") == obl or obl.startswith(ob.get("base", "\0")):
                if ob["status"] == "refuted":
                    hit = ob
    if hit is not None:
        print("VIOLATION property=%s replay=%s obligation=%s%s" % (prop, path, hit["name"], "" if (hit.get("replay") or {}).get("confirmed") else " no-failing-input-found"))
        print("native verdict now: %s" % json.dumps(hit.get("replay"))[:800])
        return 1
    print("the obligation holds on the current tree (no refutation reproduced)")
    return 0


if __name__ == "__main__":
    sys.exit(main())
